//! Per-property workloads and judges for the simulator engine (E1).

use crate::cases::*;
use crate::monitors::{Analysis, Finding};
use crate::peers::PeerState;
use crate::runner::{Judge, Judged};
use crate::sim::{content, Act, CaseSpec, Dir, EndHow, Outcome, Role, Rule, Stray};
use crate::util::Rng;
use std::sync::Arc;

pub struct Plan {
    pub cases: Vec<CaseSpec>,
    pub judge: Arc<Judge>,
    /// event classes that must have been observed, else the run is inconclusive
    pub required_classes: Vec<&'static str>,
    pub rule_text: String,
    pub exhaustive_note: String,
}

fn filter_rules(an: &Analysis, rules: &[&str]) -> Vec<Finding> {
    an.findings.iter().filter(|f| rules.contains(&f.rule)).cloned().collect()
}

fn judge_rules(rules: &'static [&'static str]) -> Arc<Judge> {
    Arc::new(move |_s: &CaseSpec, _o: &Outcome, an: &Analysis| Judged {
        findings: filter_rules(an, rules),
        out_of_premise: false,
        inconclusive: if an.capped_with_progress { Some("harness event cap reached while the transfer was still progressing".to_string()) } else { None },
    })
}

/// C04-style completion judge. Premise: conformant peer, data phase, at most 5
/// datagrams lost or delayed past the timeout by the network.
fn completion_findings(s: &CaseSpec, o: &Outcome, an: &Analysis) -> (Vec<Finding>, bool) {
    // each lost/late datagram costs the worker ceil(T_peer / T) failed receive attempts before the peer's own timer
    // repairs it; the property's premise is fewer than 6 consecutive failed attempts
    let per_loss = (s.peer.timer_ns + s.t_ns - 1) / s.t_ns.max(1);
    let isolated = s.label.starts_with("isolated:") && per_loss <= 1;
    let in_premise = s.peer.is_plain() && s.write_budget.is_none() && !s.hostile() && ((o.drops as u64) * per_loss.max(1) <= 5 || isolated);
    if !in_premise {
        return (vec![], true);
    }
    // the property speaks about the data phase: the reply to the OACK must have arrived
    if s.check_response && !matches!(o.log.first(), Some(crate::sim::Ev::RecvOk { pkt: crate::sim::Pk::Ack(0), .. })) {
        return (vec![], true);
    }
    let mut f = Vec::new();
    let at = o.log.len();
    match s.role {
        Role::Send => {
            if !an.completed {
                // RFC 1350: the very last ACK was lost and the receiver does not dally
                let exception = o.lost_final_ack && !s.peer.dally && o.peer == PeerState::Complete && o.end == EndHow::Joined;
                if !exception {
                    f.push(Finding {
                        rule: "INCOMPLETE",
                        at,
                        detail: format!(
                            "download did not complete (worker end {:?}, client {:?}) although only {} datagram(s) were lost/late and the worker saw at most {} consecutive failed receives",
                            o.end, o.peer, o.drops, an.max_consecutive_failures
                        ),
                    });
                }
            } else if o.peer != PeerState::Complete {
                f.push(Finding { rule: "INCOMPLETE", at, detail: format!("worker reports success but the client is {:?}", o.peer) });
            }
        }
        Role::Recv => {
            if !an.completed {
                f.push(Finding {
                    rule: "INCOMPLETE",
                    at,
                    detail: format!(
                        "upload did not complete (worker end {:?}, client {:?}) although only {} datagram(s) were lost/late and the worker saw at most {} consecutive failed receives",
                        o.end, o.peer, o.drops, an.max_consecutive_failures
                    ),
                });
            } else {
                if o.file_after.as_deref() != Some(&content(s.seed, 0, s.len)[..]) {
                    f.push(Finding { rule: "INCOMPLETE", at, detail: "upload acknowledged but the stored file differs".into() });
                }
                if o.peer != PeerState::Complete && !o.lost_final_ack {
                    f.push(Finding { rule: "INCOMPLETE", at, detail: format!("worker completed, the final ACK was not lost, yet the client ended {:?}", o.peer) });
                }
            }
        }
    }
    (f, false)
}

/// configurations for the degenerate-content family: block sizes 8 / 512 / 4096 / 8192 (page and sector multiples),
/// lengths that are and are not multiples of the block size
fn content_cfgs(role: Role, q: bool) -> Vec<Cfg> {
    let mut v = Vec::new();
    for b in [8usize, 512, 4096, 8192] {
        for w in if q { vec![1u16, 4] } else { vec![1u16, 2, 4, 16] } {
            for len in [0u64, b as u64, 3 * b as u64, 5 * b as u64 + 17, 8 * b as u64, 70_000 / b as u64 * b as u64 + 3 * b as u64] {
                v.push(Cfg { role, b, w, len, hs: role == Role::Send && w == 4, every: 0 });
            }
        }
    }
    v
}

fn quick(tier: &str) -> bool {
    tier != "thorough"
}

pub fn build(id: &str, tier: &str, seed: u64, threads: usize) -> Option<Plan> {
    let mut rng = Rng::new(seed ^ crate::util::fnv(id.as_bytes()));
    let q = quick(tier);
    let mut cases: Vec<CaseSpec> = Vec::new();
    match id {
        "C01" => {
            let mut cfgs = grid(&[Role::Send], &[8, 9, 512], if q { &[1, 2, 3, 4] } else { &[1, 2, 3, 4, 5, 8, 16] }, !q, true, 1 << 20);
            cfgs.extend(grid(&[Role::Send], &[1428, 65464], &[1, 2], false, true, if q { 200_000 } else { 600_000 }));
            if !q {
                cfgs.extend(grid(&[Role::Send], &[8], &[64], false, true, 1 << 20));
                for w in [65534u16, 65535] {
                    for len in [0u64, 7, 8, 17, 40] {
                        cfgs.push(Cfg { role: Role::Send, b: 8, w, len, hs: false, every: 0 });
                    }
                }
            }
            // larger files with block sizes that do not divide the usual I/O buffer sizes (4 KiB, 8 KiB, 64 KiB):
            // a short read / buffer boundary inside the file must not end or corrupt the transfer
            for bsz in [9usize, 100, 1000, 1428, 1468] {
                for w in [1u16, 4] {
                    for len in [4095u64, 4097, 8191, 8192, 8193, 16389, 20000, 65537, 70001, 131073] {
                        if (len / bsz as u64) > 9000 || (q && len > 70001) {
                            continue;
                        }
                        cfgs.push(Cfg { role: Role::Send, b: bsz, w, len, hs: w == 4, every: 0 });
                    }
                }
            }
            // one window holds more than 1 / 4 / 16 MiB (read-ahead or batching limits) and the file is longer than that
            for (bsz, w, len) in [(65464usize, 20u16, (1u64 << 20) + 4321), (1000, 4500, (4 << 20) + 999), (65464, 300, (17 << 20) + 12345), (1000, 17000, (17 << 20) + 777)] {
                if q && len > (17 << 20) + 1000 {
                    continue;
                }
                cfgs.push(Cfg { role: Role::Send, b: bsz, w, len, hs: true, every: 0 });
            }
            let bases = make_bases(&cfgs, seed, threads);
            for (b, o) in &bases {
                cases.push(b.spec.clone());
                let _ = o;
                if b.spec.w as u64 * b.spec.b as u64 > (1 << 20) {
                    // huge windows: fault-free only (every partial ACK repeats a whole window)
                    continue;
                }
                if b.spec.nblocks() > 40 {
                    // long transfers: fault-free, every ack pattern, a few random fault plans
                    fam_ack_patterns(b, &mut cases);
                    fam_random(b, &mut rng, 3, 4, &mut cases);
                    continue;
                }
                fam_single(b, false, 2, &mut cases);
                fam_ack_patterns(b, &mut cases);
                if b.spec.w <= 8 || b.spec.nblocks() <= 4 {
                    fam_bogus_acks(b, &mut rng, &mut cases);
                }
                fam_strays(b, &mut cases);
                fam_send_fail(b, &mut cases);
                if b.spec.nblocks() <= 12 {
                    // a whole window (or its ACK) lost three and four times in a row, then the link recovers
                    fam_rfold(b, &[3, 4], &mut cases);
                }
                fam_random(b, &mut rng, if q { 4 } else { 500 }, 6, &mut cases);
                if !q && b.spec.w <= 4 && b.spec.b <= 512 && b.spec.nblocks() <= 2 * b.spec.w as u64 + 1 {
                    fam_pairs(b, false, 1, &mut cases);
                }
                if !q && b.spec.b == 8 {
                    fam_triples(b, false, 13, &mut cases);
                }
            }
            for (b, _) in &make_bases(&content_cfgs(Role::Send, q), seed, threads) {
                fam_content(b, b.spec.nblocks() <= 10, &mut cases);
            }
            // duplicate-packets mode with windows of more than 64 / 128 blocks: every copy must carry its own block's slice
            // (every extra copy costs a real millisecond)
            {
                let dup_cfgs: Vec<Cfg> = [(65u16, 140u64), (128, 300), (200, 450)].iter().map(|&(w, n)| Cfg { role: Role::Send, b: 8, w, len: (n - 1) * 8 + 3, hs: false, every: 0 }).collect();
                for (b, _) in &make_bases(&dup_cfgs, seed, threads) {
                    let mut v = vec![b.spec.clone()];
                    fam_random(b, &mut rng, 2, 3, &mut v);
                    // the first transmission of an early block of the second window and its extra copy are both lost
                    let w = b.spec.w as u64;
                    v.push({
                        let mut s = b.spec.clone();
                        s.label = format!("duploss:{}", s.label);
                        s.rules.push(Rule::DropFirst { dir: Dir::W2P, is_data: true, abs: w + 4, count: 2 });
                        s
                    });
                    set_repeat(&mut v, 2);
                    for c in v.iter_mut() {
                        c.peer.quiet_dups = true;
                    }
                    cases.extend(v);
                }
            }
            Some(Plan {
                cases,
                judge: judge_rules(&["CONTENT", "BEYOND_FINAL", "E2E", "ENDED_EARLY"]),
                required_classes: vec!["partial-ack", "retransmission-burst", "peer-complete"],
                rule_text: "CONTENT: every DATA(k,payload) emitted by the worker equals file[(k-1)b,kb) for the absolute block the payload identifies (offset-keyed content) and k = abs mod 65536; BEYOND_FINAL: no block after the first short one; E2E: a client that reassembles in-order blocks and completes holds exactly the file".into(),
                exhaustive_note: "exhaustive: every single fault (drop, dup, reorder, delay past timeout) on every datagram of every configuration in the grid; thorough: also all fault pairs for w<=3. Random fault plans are seeded samples.".into(),
            })
        }
        "C02" => {
            let mut cfgs = grid(&[Role::Recv], &[8, 9, 512], if q { &[1, 2, 3, 4] } else { &[1, 2, 3, 4, 5, 8, 16] }, !q, false, 1 << 20);
            cfgs.extend(grid(&[Role::Recv], &[1428, 65464], &[1, 2], false, false, if q { 200_000 } else { 600_000 }));
            // very large windows (more buffered pieces than IOV_MAX / typical batch limits) flushed in one go
            for (w, n) in [(1025u16, 2100u64), (1100, 1200), (5000, 5003)] {
                cfgs.push(Cfg { role: Role::Recv, b: 8, w, len: (n - 1) * 8 + 5, hs: false, every: 0 });
            }
            for bsz in [9usize, 100, 1000, 1428, 1468] {
                for w in [1u16, 4] {
                    for len in [4097u64, 8191, 8192, 8193, 16389, 20000, 65537, 70001] {
                        if (len / bsz as u64) > 9000 {
                            continue;
                        }
                        cfgs.push(Cfg { role: Role::Recv, b: bsz, w, len, hs: false, every: 0 });
                    }
                }
            }
            // one window holds more than 1 / 16 MiB and the upload is longer than that
            cfgs.push(Cfg { role: Role::Recv, b: 65464, w: 20, len: (1 << 20) + 4321, hs: false, every: 0 });
            cfgs.push(Cfg { role: Role::Recv, b: 65464, w: 300, len: (17 << 20) + 12345, hs: false, every: 0 });
            let bases = make_bases(&cfgs, seed, threads);
            for (b, _) in &bases {
                cases.push(b.spec.clone());
                if b.spec.w as u64 * b.spec.b as u64 > (1 << 20) {
                    continue;
                }
                if b.spec.nblocks() > 40 {
                    fam_random(b, &mut rng, 3, 4, &mut cases);
                    continue;
                }
                fam_single(b, false, 2, &mut cases);
                fam_strays(b, &mut cases);
                fam_send_fail(b, &mut cases);
                if b.spec.b == 8 && b.spec.w >= 2 && b.spec.w <= 4 && b.spec.nblocks() <= 9 {
                    fam_transient_write(b, &mut cases);
                }
                fam_pre_existing(b, &mut cases);
                fam_random(b, &mut rng, if q { 4 } else { 500 }, 6, &mut cases);
                if !q && b.spec.w <= 4 && b.spec.b <= 512 && b.spec.nblocks() <= 2 * b.spec.w as u64 + 1 {
                    fam_pairs(b, false, 1, &mut cases);
                }
                if !q && b.spec.b == 8 {
                    fam_triples(b, false, 13, &mut cases);
                }
            }
            for (b, _) in &make_bases(&content_cfgs(Role::Recv, q), seed, threads) {
                fam_content(b, b.spec.nblocks() <= 10, &mut cases);
            }
            Some(Plan {
                cases,
                judge: judge_rules(&["ACK_UNSEEN", "FILE_AT_ACK", "FINAL_CONTENT"]),
                required_classes: vec!["duplicate-data", "gap-data", "stray-non-data", "peer-complete"],
                rule_text: "FILE_AT_ACK: at the instant ACK(k) is handed to the socket the target file (read through a second descriptor) is a prefix of the uploaded bytes holding at least blocks 1..k, and exactly the upload at the final ACK; ACK_UNSEEN: ACK numbers never exceed the last block delivered in sequence and never go backwards; FINAL_CONTENT: after an upload acknowledged to the end the file equals the bytes sent".into(),
                exhaustive_note: "exhaustive: single faults on every datagram and 9 kinds of stray datagram in front of every peer datagram, for every configuration; thorough adds all fault pairs for w<=3.".into(),
            })
        }
        "C04" => {
            let ws: &[u16] = if q { &[1, 2, 3, 4] } else { &[1, 2, 3, 4, 5, 6, 7, 8, 16] };
            let mut cfgs = grid(&[Role::Send, Role::Recv], &[8, 512], ws, false, true, 1 << 20);
            // transfers of 9-10 windows for faults that are spread over the whole transfer
            for role in [Role::Send, Role::Recv] {
                for w in [1u16, 2, 3] {
                    cfgs.push(Cfg { role, b: 8, w, len: 8 * (10 * w as u64) - 3, hs: false, every: 0 });
                }
            }
            let bases = make_bases(&cfgs, seed, threads);
            for (b, _) in &bases {
                cases.push(b.spec.clone());
                fam_isolated(b, &mut cases);
                if b.spec.nblocks() > 2 * b.spec.w as u64 + 2 {
                    fam_rfold(b, &[1, 5], &mut cases);
                    continue;
                }
                fam_single(b, true, 2, &mut cases);
                // the same single faults against a dallying client
                if b.spec.role == Role::Send {
                    let mut v = Vec::new();
                    fam_single(b, true, 0, &mut v);
                    for mut c in v {
                        c.peer.dally = true;
                        c.label = format!("{}:dally", c.label);
                        cases.push(c);
                    }
                }
                fam_rfold(b, &[1, 2, 3, 4, 5, 6, 7], &mut cases);
                if b.spec.b == 8 {
                    fam_timers(b, true, &mut cases);
                    if b.spec.w <= 3 {
                        fam_timeouts(b, false, &mut cases);
                    }
                }
                fam_random(b, &mut rng, if q { 6 } else { 500 }, 5, &mut cases);
                if !q && b.spec.w <= 4 && b.spec.b == 8 && b.spec.nblocks() <= 2 * b.spec.w as u64 + 1 {
                    fam_pairs(b, true, 1, &mut cases);
                }
                if !q && b.spec.b == 8 {
                    fam_triples(b, true, 13, &mut cases);
                }
            }
            Some(Plan {
                cases,
                judge: Arc::new(|s: &CaseSpec, o: &Outcome, an: &Analysis| {
                    let (mut findings, oop) = completion_findings(s, o, an);
                    findings.extend(filter_rules(an, &["PANIC"]));
                    Judged { findings, out_of_premise: oop, inconclusive: None }
                }),
                required_classes: vec!["timeout-driven-burst", "gap-driven-burst", "re-ack", "duplicate-data", "peer-complete"],
                rule_text: "INCOMPLETE: with a conformant peer and at most 5 datagrams lost or delayed past the timeout (so the network alone cannot cause 6 consecutive failed receives), the transfer completes: sender saw the final ACK / receiver emitted it and stored the exact bytes, and the client completed too; only exception: the final ACK was lost and its sender does not dally (RFC 1350). Cases with more losses are counted out_of_premise.".into(),
                exhaustive_note: "exhaustive: every single fault on every data-phase datagram, r-fold loss r=1..7 of every logical DATA/ACK, 4 peer-timer settings x every single drop; thorough: all pairs for w<=3.".into(),
            })
        }
        "C07" => {
            let ws: &[u16] = if q { &[1, 2, 3, 4, 5] } else { &[1, 2, 3, 4, 5, 8, 16] };
            let cfgs = grid(&[Role::Send, Role::Recv], &[8, 512], ws, !q, true, 1 << 20);
            let bases = make_bases(&cfgs, seed, threads);
            for (b, _) in &bases {
                cases.push(b.spec.clone());
                fam_silence_error(b, &mut cases);
                if b.spec.nblocks() <= 3 {
                    fam_error_texts(b, &mut cases);
                }
                if b.spec.role == Role::Send {
                    fam_ack_patterns(b, &mut cases);
                    if b.spec.w <= 5 {
                        fam_bogus_acks(b, &mut rng, &mut cases);
                    }
                    if b.spec.nblocks() <= 3 || (!q && b.spec.nblocks() <= 9) {
                        fam_stale_then_silence(b, &mut cases);
                    }
                }
                fam_single(b, false, 1, &mut cases);
                fam_strays(b, &mut cases);
                if b.spec.nblocks() <= 9 {
                    fam_send_fail(b, &mut cases);
                }
                if b.spec.b == 8 && b.spec.w <= 3 && (b.spec.nblocks() <= 4 || !q) {
                    fam_timeouts(b, true, &mut cases);
                }
                if b.spec.nblocks() <= 4 || !q {
                    fam_blackhole(b, &mut cases);
                }
                if !q {
                    fam_random(b, &mut rng, 300, 6, &mut cases);
                    if b.spec.w <= 3 && b.spec.b == 8 && b.spec.nblocks() <= 2 * b.spec.w as u64 + 1 {
                        fam_pairs(b, false, 1, &mut cases);
                    }
                }
            }
            Some(Plan {
                cases,
                judge: judge_rules(&["AFTER_ERROR", "AFTER_FINAL", "BEYOND_FINAL", "UNBOUNDED", "ENDED_EARLY"]),
                required_classes: vec!["error-in-reply-to-oack", "partial-ack", "peer-aborted", "peer-gave-up", "peer-complete"],
                rule_text: "AFTER_ERROR: no socket event after an ERROR was delivered; AFTER_FINAL: no event after the final block was acknowledged (sender: ACK delivered; receiver: ACK emitted); BEYOND_FINAL: no DATA past the final block; UNBOUNDED: never more than 16 consecutive receive timeouts and never the event cap (50x the fault-free event count).".into(),
                exhaustive_note: "exhaustive: peer silent from / ERROR at / stray ERROR before every peer datagram (including the reply to the OACK); client acknowledging every k blocks for k=1..w (with and without dally) for file lengths 0,1,b-1,b,b+1,wb-1,wb,wb+1,(w+1)b,2wb,2wb+1.".into(),
            })
        }
        "C08" => {
            let ws: &[u16] = if q { &[1, 2, 3, 4, 5, 8] } else { &[1, 2, 3, 4, 5, 6, 7, 8, 16, 32] };
            let mut cfgs = grid(&[Role::Send], &[8, 512], ws, !q, false, 1 << 20);
            // the same downloads started by an OACK handshake (the worker first waits for the ACK 0 that answers it)
            cfgs.extend(grid(&[Role::Send], &[8], if q { &[1, 2, 4] } else { &[1, 2, 3, 4, 8] }, false, false, 1 << 20).into_iter().map(|mut c| {
                c.hs = true;
                c
            }));
            cfgs.extend(grid(&[Role::Recv], &[8], ws, false, false, 1 << 20));
            for w in [65534u16, 65535] {
                for len in [0u64, 8, 17, 40] {
                    cfgs.push(Cfg { role: Role::Send, b: 8, w, len, hs: false, every: 0 });
                    cfgs.push(Cfg { role: Role::Recv, b: 8, w, len, hs: false, every: 0 });
                    // a client acknowledging every 1 / 2 blocks, so that stale numbers exist while the huge window is open
                    if len >= 17 {
                        cfgs.push(Cfg { role: Role::Send, b: 8, w, len, hs: false, every: 1 });
                        cfgs.push(Cfg { role: Role::Send, b: 8, w, len, hs: false, every: 2 });
                    }
                }
            }
            let bases = make_bases(&cfgs, seed, threads);
            for (b, _) in &bases {
                cases.push(b.spec.clone());
                if b.spec.role == Role::Send {
                    fam_stale_timing(b, if q { 2 } else { 4 }, &mut cases);
                    if b.spec.nblocks() <= 2 * b.spec.w as u64 + 1 || !q {
                        fam_stale_pairs(b, &mut cases);
                        fam_stale_volley(b, &mut cases);
                        fam_junk_timing(b, &mut cases);
                    }
                    fam_ack_patterns(b, &mut cases);
                    if b.spec.w <= 8 || b.spec.nblocks() <= 6 {
                        fam_bogus_acks(b, &mut rng, &mut cases);
                    }
                }
                fam_single(b, false, 1, &mut cases);
                if b.spec.role == Role::Recv {
                    fam_strays(b, &mut cases);
                    // the same receiver scenarios with keep-on-error in force, plus a sender that pauses (its timer is
                    // longer than the receiver's timeout) - the ACK cadence must not depend on the clean-up policy
                    let mut v = Vec::new();
                    fam_strays(b, &mut v);
                    fam_single(b, false, 0, &mut v);
                    if b.spec.w <= 8 {
                        fam_timers(b, false, &mut v);
                    }
                    for mut c in v {
                        c.clean = false;
                        c.label = format!("{}:keep", c.label);
                        cases.push(c);
                    }
                }
                if !q {
                    fam_random(b, &mut rng, 300, 5, &mut cases);
                    if b.spec.w <= 4 && b.spec.b == 8 && b.spec.nblocks() <= 2 * b.spec.w as u64 + 1 {
                        fam_pairs(b, false, 1, &mut cases);
                    }
                    if b.spec.b == 8 {
                        fam_triples(b, false, 9, &mut cases);
                    }
                }
            }
            Some(Plan {
                cases,
                judge: judge_rules(&["R1", "R2", "R3", "R4", "R5", "PANIC"]),
                required_classes: vec!["stale-ack-before-timeout", "stale-ack-at-or-after-timeout", "partial-ack", "timeout-driven-burst", "gap-driven-burst"],
                rule_text: "R1: no DATA beyond last-acknowledged + windowsize; R2: bursts are contiguous and resume at k+1 after cumulative ACK(k); R3: a burst containing an already-sent block needs virtual time >= timeout since the previous burst or an immediately preceding in-window ACK that left blocks outstanding; R4: a duplicate/stale ACK delivered < timeout after the last burst is followed by a receive (no send, no end, no panic); R5/R6: receiver emits ACK(last) right after windowsize consecutive in-order blocks and after the final block.".into(),
                exhaustive_note: "exhaustive: duplicate/stale ACK(front-d), d=0..2 (thorough 0..4), at offsets {1us, T/2, T-1ns, T, T+1ns, 1.5T} after every burst of every configuration incl. windowsize 65534/65535; every ack-every-k pattern; every single fault.".into(),
            })
        }
        "C13" => {
            let ws: &[u16] = if q { &[1, 2, 3, 4] } else { &[1, 2, 3, 4, 5, 8] };
            let cfgs = grid(&[Role::Recv], &[8, 512], ws, !q, false, 1 << 20);
            let bases = make_bases(&cfgs, seed, threads);
            for (b, _) in &bases {
                for clean in [true, false] {
                    let mut v = vec![b.spec.clone()];
                    fam_silence_error(b, &mut v);
                    if b.spec.nblocks() <= 4 {
                        fam_error_texts(b, &mut v);
                    }
                    fam_send_fail(b, &mut v);
                    if b.spec.b == 8 {
                        fam_single(b, false, 0, &mut v);
                        if b.spec.nblocks() <= 5 || !q {
                            fam_blackhole(b, &mut v);
                        }
                    }
                    for mut c in v {
                        c.clean = clean;
                        c.label = format!("{}:{}", c.label, if clean { "clean" } else { "keep" });
                        if c.label.starts_with("silent:") || c.label.starts_with("error:") {
                            // the same aborted upload replacing a longer / shorter file (overwrite mode)
                            for (pre, pn) in [(c.len + 100, "over-longer"), (c.len / 2 + 1, "over-shorter")] {
                                let mut d = c.clone();
                                d.pre_existing = pre;
                                d.label = format!("{}:{}", d.label, pn);
                                cases.push(d);
                            }
                        }
                        cases.push(c);
                    }
                }
                fam_write_fail(b, &mut cases);
                {
                    let mut v = Vec::new();
                    fam_write_fail(b, &mut v);
                    for mut c in v {
                        c.pre_existing = c.len + 100;
                        c.label = format!("{}:over-longer", c.label);
                        cases.push(c);
                    }
                }
            }
            Some(Plan {
                cases,
                judge: judge_rules(&["CLEANUP", "FINAL_CONTENT"]),
                required_classes: vec!["failed-upload-clean", "failed-upload-keep", "peer-aborted", "peer-gave-up"],
                rule_text: "CLEANUP: after the worker thread of a failed upload has ended, clean mode leaves no file, keep mode leaves a file that is a prefix of the bytes sent; FINAL_CONTENT: a completed upload's file equals the bytes sent. (Histories with two workers on one path are checked separately, see c13_history.)".into(),
                exhaustive_note: "exhaustive: abort after every peer datagram j (ERROR / silence / stray ERROR) and injected write error after every chunk j, x {clean, keep} x windowsize.".into(),
            })
        }
        "C15" => {
            // b = 8; n blocks -> len = (n-1)*8 + r
            let ns: &[u64] = if q { &[65534, 65535, 65536, 65537, 65538] } else { &[65534, 65535, 65536, 65537, 65538, 131071, 131073] };
            let ws: &[u16] = if q { &[1, 3, 7, 64] } else { &[1, 2, 3, 7, 64, 1000, 65535] };
            let mut cfgs = Vec::new();
            for &n in ns {
                for &w in ws {
                    for role in [Role::Send, Role::Recv] {
                        if n > 70000 && (w == 1 || w == 2) && q {
                            continue;
                        }
                        cfgs.push(Cfg { role, b: 8, w, len: (n - 1) * 8 + (n % 8), hs: false, every: 0 });
                    }
                }
            }
            // duplicate-packets mode on the receiving side with windows that end exactly at block 65535 (51 and 255 divide
            // 65535): every copy of that window's ACK is lost once / twice
            for w in [51u16, 255] {
                let n = 65535 + 2 * w as u64 + 1;
                for (label, count) in [("none", 0u32), ("ack65535x2", 2), ("ack65535x4", 4), ("data65536x2", 2)] {
                    let mut s = base_spec(&Cfg { role: Role::Recv, b: 8, w, len: (n - 1) * 8 + 3, hs: false, every: 0 }, seed);
                    s.repeat = 2;
                    s.label = format!("wrapdup:Rw{w}n{n}:{label}:N1");
                    if label.starts_with("ack") {
                        s.rules.push(Rule::DropFirst { dir: Dir::W2P, is_data: false, abs: 65535, count });
                    } else if count > 0 {
                        s.rules.push(Rule::DropFirst { dir: Dir::P2W, is_data: true, abs: 65536, count });
                    }
                    cases.push(s);
                }
            }
            // windows of more than 32768 blocks (more than half the 16-bit number space), fault-free, both roles
            for (n, w) in [(70001u64, 40000u16), (65537, 65535), (40003, 40000)] {
                for role in [Role::Send, Role::Recv] {
                    cases.push({
                        let mut s = base_spec(&Cfg { role, b: 8, w, len: (n - 1) * 8 + 3, hs: false, every: 0 }, seed);
                        s.label = format!("hugewindow:{}w{}n{}", if role == Role::Send { "S" } else { "R" }, w, n);
                        s
                    });
                }
            }
            // a dozen windows behind the wrap: isolated losses (one per window) there must be tolerated like anywhere else
            let mut tails = Vec::new();
            for &w in if q { &[1u16, 7][..] } else { &[1u16, 3, 7, 64][..] } {
                for role in [Role::Send, Role::Recv] {
                    let n = 65536 + 12 * w as u64 + 1;
                    tails.push(Cfg { role, b: 8, w, len: (n - 1) * 8 + 3, hs: false, every: 0 });
                }
            }
            for (b, _) in &make_bases(&tails, seed, threads) {
                fam_isolated_from(b, 65536, &mut cases);
            }
            let bases = make_bases(&cfgs, seed, threads);
            for (b, o) in &bases {
                cases.push(b.spec.clone());
                if b.spec.w >= 32768 {
                    // with a window of half the number space or more, a duplicated or repeated ACK of the previous
                    // window carries the same 16-bit number as a block of the current one: no implementation can tell
                    // them apart, so only the fault-free transfer is judged for such windows
                    continue;
                }
                // faults on the datagrams of the windows around every wrap
                let w = b.spec.w as u64;
                let span = (w + 2).min(if q { 6 } else { 12 });
                for (dir, dn) in [(Dir::W2P, "w2p"), (Dir::P2W, "p2w")] {
                    let absv = &o.dgram_abs[dir as usize];
                    for (idx, &abs) in absv.iter().enumerate() {
                        let r = abs % 65536;
                        let near = abs >= 65535 - span && (r <= span || r >= 65536 - span);
                        if !near {
                            continue;
                        }
                        for (act, an) in ACTS {
                            if q && matches!(act, Act::Delay(d) if d > crate::cases::T) {
                                continue;
                            }
                            let mut s = b.spec.clone();
                            s.label = format!("wrapfault:{}w{}n{}:{dn}#{idx}(abs{abs}):{an}", if s.role == Role::Send { "S" } else { "R" }, s.w, s.nblocks());
                            s.rules.push(Rule::Idx { dir, idx, act });
                            cases.push(s);
                        }
                    }
                }
                // stale ACK from 65536 blocks ago arriving near the wrap (sender), duplicate of an old block (receiver)
                if b.spec.role == Role::Send {
                    for rel in [0i64, -1, -2] {
                        let mut s = b.spec.clone();
                        s.label = format!("wrapstale:w{}n{}:ackrel{rel}", s.w, s.nblocks());
                        // find the peer datagram acknowledging a block >= 65536
                        if let Some(idx) = o.dgram_abs[Dir::P2W as usize].iter().position(|&a| a >= 65536) {
                            s.rules.push(Rule::InjectBefore { idx: idx + 1, stray: Stray::AckRel(rel) });
                            cases.push(s);
                        }
                    }
                }
                if !q {
                    fam_random(b, &mut rng, 3, 4, &mut cases);
                }
            }
            Some(Plan {
                cases,
                judge: Arc::new(|s: &CaseSpec, o: &Outcome, an: &Analysis| {
                    let mut findings = filter_rules(an, &["CONTENT", "BEYOND_FINAL", "E2E", "R1", "R2", "R4", "ACK_UNSEEN", "FILE_AT_ACK", "FINAL_CONTENT", "PANIC", "UNBOUNDED"]);
                    let (f2, _) = completion_findings(s, o, an);
                    findings.extend(f2);
                    let inconclusive = if an.capped_with_progress { Some("harness event cap reached while the transfer was still progressing".to_string()) } else if an.wraps == 0 && s.nblocks() > 65535 { Some("no block beyond 65535 observed".to_string()) } else { None };
                    Judged { findings, out_of_premise: false, inconclusive }
                }),
                required_classes: vec!["peer-complete"],
                rule_text: "the C01/C02/C08 monitors (content identified by offset-keyed payload, so a block or ACK attributed 65536 positions away is visible in one datagram) plus completion, on transfers of 65534..65538 (thorough: 131071, 131073) blocks of 8 bytes; every case must show blocks beyond 65535 or it is inconclusive.".into(),
                exhaustive_note: "exhaustive: drop/dup/reorder (thorough: + delay past timeout) of every datagram within windowsize+2 (max 6 / 12) blocks of each wrap, both directions, both roles, each windowsize.".into(),
            })
        }
        "C16" => {
            let cfgs = grid(&[Role::Send, Role::Recv], &[8, 512], &[1, 2, 4], false, false, 1 << 20);
            let bases = make_bases(&cfgs, seed, threads);
            for (b, _) in &bases {
                for rep in [1u8, 2, 3, 4] {
                    let mut v = vec![b.spec.clone()];
                    // peers that acknowledge every copy / a peer link that duplicates too
                    for extra in [1u32, 3] {
                        let mut s = b.spec.clone();
                        s.label = format!("dupall:{}:x{}", s.label, extra + 1);
                        s.rules.push(Rule::DupAll { dir: Dir::P2W, extra });
                        v.push(s);
                    }
                    if b.spec.nblocks() <= 5 || !q {
                        fam_single(b, true, 0, &mut v);
                    }
                    if b.spec.role == Role::Send && rep <= 2 {
                        fam_ack_patterns(b, &mut v);
                    }
                    set_repeat(&mut v, rep);
                    cases.extend(v);
                }
            }
            // the block number wraps while duplicate-packets mode is on (receiver role only: every copy costs a real
            // millisecond, 1 026 ACK bursts at windowsize 64)
            for (n, w) in [(65537u64, 64u16), (65600, 128)] {
                let mut s = base_spec(&Cfg { role: Role::Recv, b: 8, w, len: (n - 1) * 8 + 3, hs: false, every: 0 }, seed);
                s.repeat = 2;
                s.label = format!("wrapdup:R:n{n}:w{w}:N1");
                cases.push(s);
            }
            // one burst of 65536 datagrams (32768 blocks x 2 copies): about 33 s of real inter-copy sleeps
            {
                let mut s = base_spec(&Cfg { role: Role::Send, b: 8, w: 32768, len: 32768 * 8 + 3, hs: false, every: 0 }, seed);
                s.repeat = 2;
                s.peer.quiet_dups = true;
                s.label = "bigburst:S:n32769:w32768:N1".to_string();
                cases.push(s);
            }
            // N = 254: real 1 ms sleeps between copies, keep to <= 3 blocks
            for role in [Role::Send, Role::Recv] {
                for len in [0u64, 9, 17] {
                    let mut s = base_spec(&Cfg { role, b: 8, w: 2, len, hs: false, every: 0 }, seed);
                    s.repeat = 255;
                    s.label = format!("n254:{:?}:len{}", role, len);
                    cases.push(s);
                }
            }
            Some(Plan {
                cases,
                judge: Arc::new(|s: &CaseSpec, o: &Outcome, an: &Analysis| {
                    let mut findings = filter_rules(an, &["REPEAT", "E2E", "FINAL_CONTENT", "PANIC", "CONTENT", "FILE_AT_ACK", "ACK_UNSEEN"]);
                    let (f2, oop) = completion_findings_dup(s, o, an);
                    findings.extend(f2);
                    Judged { findings, out_of_premise: oop, inconclusive: None }
                }),
                required_classes: vec!["peer-complete"],
                rule_text: "REPEAT: every maximal run of identical consecutive DATA / ACK datagrams emitted without an intervening receive has length exactly N+1; completion + E2E/FINAL_CONTENT: transfers with conformant peers (which acknowledge every copy, or whose own datagrams are duplicated by the link) finish byte-identical.".into(),
                exhaustive_note: "N in {0,1,2,3} x both roles x windowsize {1,2,4} x 11 lengths x 2 blocksizes, fault-free, with the peer's datagrams duplicated x2 / x4, and under every single fault; N=254 with 1..3 blocks.".into(),
            })
        }
        _ => None,
    }
}

/// completion judge that also accepts the link-duplication rule as non-hostile
fn completion_findings_dup(s: &CaseSpec, o: &Outcome, an: &Analysis) -> (Vec<Finding>, bool) {
    completion_findings(s, o, an)
}

/// C13 history: two real workers accepted for one path. The earlier (stale) one
/// never gets data; the later one completes; then the stale one times out.
pub fn c13_history(seed: u64) -> Vec<crate::util::Json> {
    use crate::sim::{Core, Gate, SimSocket};
    use crate::util::Json;
    use std::sync::Mutex;
    use std::time::Duration;
    use tftpd::Socket;
    let dir = crate::runner::workdir();
    let mut results = Vec::new();
    let mut k = 0u64;
    for clean in [true, false] {
        for w in [1u16, 2, 4] {
            for progress in [0usize, 1, 3] {
                for len in [0u64, 20, 100] {
                    k += 1;
                    let path = dir.join(format!("hist{k}.bin"));
                    let _ = std::fs::remove_file(&path);
                    // stale worker A: its client stops talking after `progress` datagrams
                    let mut sa = base_spec(&Cfg { role: Role::Recv, b: 8, w, len: 64, hs: false, every: 0 }, seed ^ 0xA);
                    sa.clean = clean;
                    sa.peer.silent_from = Some(progress);
                    sa.label = format!("history:A:w{w}:progress{progress}");
                    // latest worker B: conformant client, different content
                    let mut sb = base_spec(&Cfg { role: Role::Recv, b: 8, w, len, hs: false, every: 0 }, seed ^ 0xB);
                    sb.clean = clean;
                    sb.label = format!("history:B:w{w}:len{len}");
                    let gate = Arc::new(Gate { at_recv: progress.min(64 / 8 + 1), ..Default::default() });
                    let mut core_a = Core::new(sa.clone(), path.clone());
                    core_a.gate = Some(gate.clone());
                    let core_a = Arc::new(Mutex::new(core_a));
                    let mut sock_a = Box::new(SimSocket { core: core_a.clone() });
                    sock_a.set_read_timeout(Duration::from_nanos(sa.read_timeout_ns)).unwrap();
                    let ha = tftpd::Worker::new(sock_a, path.clone(), clean, sa.b, Duration::from_nanos(sa.t_ns), w, 1).receive().unwrap();
                    // wait until A is parked inside its `progress`-th receive (file already created)
                    {
                        let mut r = gate.reached.lock().unwrap();
                        while !*r {
                            let (g, to) = gate.reached_cv.wait_timeout(r, Duration::from_secs(20)).unwrap();
                            r = g;
                            if to.timed_out() {
                                break;
                            }
                        }
                    }
                    let parked = *gate.reached.lock().unwrap();
                    // B runs to completion on the same path
                    let core_b = Arc::new(Mutex::new(Core::new(sb.clone(), path.clone())));
                    let mut sock_b = Box::new(SimSocket { core: core_b.clone() });
                    sock_b.set_read_timeout(Duration::from_nanos(sb.read_timeout_ns)).unwrap();
                    let hb = tftpd::Worker::new(sock_b, path.clone(), clean, sb.b, Duration::from_nanos(sb.t_ns), w, 1).receive().unwrap();
                    let _ = hb.join();
                    let after_b = std::fs::read(&path).ok();
                    let want = content(sb.seed, 0, sb.len);
                    let b_complete = after_b.as_deref() == Some(&want[..]);
                    // now let the stale worker run into its timeouts
                    *gate.open.lock().unwrap() = true;
                    gate.open_cv.notify_all();
                    let _ = ha.join();
                    let after_a = std::fs::read(&path).ok();
                    let intact = after_a.as_deref() == Some(&want[..]);
                    let a_events = core_a.lock().unwrap().log.len();
                    let signature = format!(
                        "C13/history/two-workers-one-path/latest-completes/earlier-times-out/{}/{}",
                        if clean { "clean" } else { "keep" },
                        if after_a.is_none() { "file-removed" } else if intact { "intact" } else { "file-altered" }
                    );
                    results.push(
                        Json::obj()
                            .set("label", Json::s(&format!("history:w{w}:staleprogress{progress}:len{len}:{}", if clean { "clean" } else { "keep" })))
                            .set("stale_worker_parked", Json::Bool(parked))
                            .set("latest_upload_complete", Json::Bool(b_complete))
                            .set("file_intact_after_stale_worker_ended", Json::Bool(intact))
                            .set("file_exists_after", Json::Bool(after_a.is_some()))
                            .set("stale_worker_events", Json::u(a_events))
                            .set("signature", Json::s(&signature)),
                    );
                    let _ = std::fs::remove_file(&path);
                }
            }
        }
    }
    let _ = std::fs::remove_dir_all(&dir);
    results
}

/// A handful of simulated transfers of both roles with faults, small enough for Miri
/// (threads, channels, file I/O and the virtual clock hook are interpreted; UB, data races and leaks are reported by Miri).
pub fn miri_slice(id: &str, seed: u64) -> crate::util::Json {
    use crate::util::Json;
    tftpd::verif::enable_virtual_time();
    let mut cases = Vec::new();
    for role in [Role::Send, Role::Recv] {
        for (w, len) in [(1u16, 9u64), (2, 16), (3, 40)] {
            let base = base_spec(&Cfg { role, b: 8, w, len, hs: role == Role::Send && w == 2, every: 0 }, seed);
            cases.push(base.clone());
            for (dir, idx, act) in [(Dir::W2P, 1usize, Act::Drop), (Dir::P2W, 1, Act::Drop), (Dir::W2P, 2, Act::Dup), (Dir::P2W, 0, Act::Delay(crate::cases::T + 1))] {
                let mut s = base.clone();
                s.label = format!("miri:{:?}:w{}:{:?}#{}:{:?}", role, w, dir, idx, act);
                s.rules.push(Rule::Idx { dir, idx, act });
                cases.push(s);
            }
            let mut s = base.clone();
            s.peer.error_at = Some(1);
            cases.push(s);
        }
    }
    let n = cases.len();
    let judge: Arc<Judge> = Arc::new(|_s: &CaseSpec, _o: &Outcome, an: &Analysis| Judged {
        findings: an.findings.iter().filter(|f| f.rule != "CLEANUP").cloned().collect(),
        out_of_premise: false,
        inconclusive: None,
    });
    let rep = crate::runner::execute(Arc::new(cases), 1, judge, None, (0, 1));
    Json::obj()
        .set("engine", Json::s("miri-sim"))
        .set("property", Json::s(id))
        .set("evaluations", Json::i(rep.evaluations as i64))
        .set("cases", Json::u(n))
        .set("events_observed", Json::i(rep.events as i64))
        .set("violation_count", Json::i(rep.violation_count as i64))
        .set("violations", Json::Arr(rep.violations.iter().map(|v| Json::s(&format!("{} {}: {}", v.spec.label, v.finding.rule, v.finding.detail))).collect()))
}
