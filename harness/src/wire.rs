//! Reference TFTP codec written from RFC 1350 / 2347 / 2348 / 2349 / 7440.
//! Independent of the code under test: used by the model peers and as the
//! oracle for C10 / C11.

pub const OP_RRQ: u16 = 1;
pub const OP_WRQ: u16 = 2;
pub const OP_DATA: u16 = 3;
pub const OP_ACK: u16 = 4;
pub const OP_ERROR: u16 = 5;
pub const OP_OACK: u16 = 6;

pub const KNOWN_OPTIONS: [&str; 4] = ["blksize", "tsize", "timeout", "windowsize"];

#[derive(Clone, Debug, PartialEq, Eq)]
pub enum RPacket {
    Rrq { filename: Vec<u8>, mode: Vec<u8>, options: Vec<(String, u64)> },
    Wrq { filename: Vec<u8>, mode: Vec<u8>, options: Vec<(String, u64)> },
    Data { block: u16, data: Vec<u8> },
    Ack(u16),
    Error { code: u16, msg: Vec<u8> },
    Oack(Vec<(String, u64)>),
}

pub fn enc_data(block: u16, payload: &[u8]) -> Vec<u8> {
    let mut v = Vec::with_capacity(4 + payload.len());
    v.extend_from_slice(&OP_DATA.to_be_bytes());
    v.extend_from_slice(&block.to_be_bytes());
    v.extend_from_slice(payload);
    v
}

pub fn enc_ack(block: u16) -> Vec<u8> {
    let mut v = Vec::with_capacity(4);
    v.extend_from_slice(&OP_ACK.to_be_bytes());
    v.extend_from_slice(&block.to_be_bytes());
    v
}

pub fn enc_error(code: u16, msg: &[u8]) -> Vec<u8> {
    let mut v = Vec::new();
    v.extend_from_slice(&OP_ERROR.to_be_bytes());
    v.extend_from_slice(&code.to_be_bytes());
    v.extend_from_slice(msg);
    v.push(0);
    v
}

fn enc_opts(v: &mut Vec<u8>, options: &[(String, u64)]) {
    for (name, value) in options {
        v.extend_from_slice(name.as_bytes());
        v.push(0);
        v.extend_from_slice(value.to_string().as_bytes());
        v.push(0);
    }
}

pub fn enc_oack(options: &[(String, u64)]) -> Vec<u8> {
    let mut v = Vec::new();
    v.extend_from_slice(&OP_OACK.to_be_bytes());
    enc_opts(&mut v, options);
    v
}

pub fn enc_request(op: u16, filename: &[u8], mode: &[u8], options: &[(String, u64)]) -> Vec<u8> {
    let mut v = Vec::new();
    v.extend_from_slice(&op.to_be_bytes());
    v.extend_from_slice(filename);
    v.push(0);
    v.extend_from_slice(mode);
    v.push(0);
    enc_opts(&mut v, options);
    v
}

pub fn encode(p: &RPacket) -> Vec<u8> {
    match p {
        RPacket::Rrq { filename, mode, options } => enc_request(OP_RRQ, filename, mode, options),
        RPacket::Wrq { filename, mode, options } => enc_request(OP_WRQ, filename, mode, options),
        RPacket::Data { block, data } => enc_data(*block, data),
        RPacket::Ack(b) => enc_ack(*b),
        RPacket::Error { code, msg } => enc_error(*code, msg),
        RPacket::Oack(o) => enc_oack(o),
    }
}

/// What the property text (C10) demands of a decoder for a given datagram.
#[derive(Clone, Debug, PartialEq, Eq)]
pub enum Demand {
    /// The statement lists this datagram among those that must be rejected.
    MustReject(&'static str),
    /// Well-formed by the RFC grammar, every string valid UTF-8, every
    /// recognised option value a plain decimal that fits 64 bits: a decoder
    /// that accepts it must produce this packet (unknown options dropped,
    /// recognised names lower-cased).
    WellFormed(RPacket),
    /// The statement leaves the outcome open (invalid UTF-8, `+5`, values
    /// above 2^64, ERROR without terminator, trailing bytes after an ACK...).
    Open(&'static str),
}

fn cstr(buf: &[u8], start: usize) -> Option<(&[u8], usize)> {
    if start > buf.len() {
        return None;
    }
    let rel = buf[start..].iter().position(|&b| b == 0)?;
    Some((&buf[start..start + rel], start + rel + 1))
}

enum Num {
    Plain(u64),
    NonNumeric,
    Odd, // numeric in some liberal reading ("+5", leading zeros are plain; overflow)
}

fn classify_number(s: &[u8]) -> Num {
    if s.is_empty() {
        return Num::NonNumeric;
    }
    let digits = if s[0] == b'+' { &s[1..] } else { s };
    if digits.is_empty() || !digits.iter().all(|c| c.is_ascii_digit()) {
        return Num::NonNumeric;
    }
    if s[0] == b'+' {
        return Num::Odd;
    }
    let mut v: u128 = 0;
    for c in digits {
        v = v * 10 + (*c - b'0') as u128;
        if v > u64::MAX as u128 {
            return Num::Odd;
        }
    }
    Num::Plain(v as u64)
}

/// Walks `name NUL value NUL` pairs from `pos` to the end of the datagram.
fn ref_options(buf: &[u8], mut pos: usize) -> Result<(Vec<(String, u64)>, Option<&'static str>), &'static str> {
    let mut out = vec![];
    let mut open: Option<&'static str> = None;
    while pos < buf.len() {
        let (name, next) = cstr(buf, pos).ok_or("option name without NUL terminator")?;
        let (value, next2) = cstr(buf, next).ok_or("option value without NUL terminator")?;
        pos = next2;
        match std::str::from_utf8(name) {
            Ok(n) => {
                let lower = n.to_lowercase();
                if KNOWN_OPTIONS.contains(&lower.as_str()) {
                    match classify_number(value) {
                        Num::Plain(v) => out.push((lower, v)),
                        Num::NonNumeric => return Err("recognised option with non-numeric value"),
                        Num::Odd => open = Some("option value numeric only in a liberal reading"),
                    }
                } else if std::str::from_utf8(value).is_err() {
                    open = Some("non UTF-8 value of an unknown option");
                }
            }
            Err(_) => open = Some("non UTF-8 option name"),
        }
    }
    Ok((out, open))
}

pub fn demand(buf: &[u8]) -> Demand {
    if buf.len() < 2 {
        return Demand::MustReject("shorter than the opcode");
    }
    let op = u16::from_be_bytes([buf[0], buf[1]]);
    match op {
        OP_RRQ | OP_WRQ => {
            let Some((filename, p1)) = cstr(buf, 2) else {
                return Demand::MustReject("filename without NUL terminator");
            };
            let Some((mode, p2)) = cstr(buf, p1) else {
                return Demand::MustReject("mode without NUL terminator");
            };
            let (options, open) = match ref_options(buf, p2) {
                Ok(x) => x,
                Err(why) => return Demand::MustReject(why),
            };
            if let Some(why) = open {
                return Demand::Open(why);
            }
            if std::str::from_utf8(filename).is_err() || std::str::from_utf8(mode).is_err() {
                return Demand::Open("non UTF-8 filename or mode");
            }
            let (filename, mode) = (filename.to_vec(), mode.to_vec());
            Demand::WellFormed(if op == OP_RRQ {
                RPacket::Rrq { filename, mode, options }
            } else {
                RPacket::Wrq { filename, mode, options }
            })
        }
        OP_DATA => {
            if buf.len() < 4 {
                return Demand::MustReject("DATA shorter than its 4-byte header");
            }
            Demand::WellFormed(RPacket::Data {
                block: u16::from_be_bytes([buf[2], buf[3]]),
                data: buf[4..].to_vec(),
            })
        }
        OP_ACK => {
            if buf.len() < 4 {
                return Demand::MustReject("ACK shorter than its 4-byte header");
            }
            if buf.len() > 4 {
                return Demand::Open("ACK with trailing bytes");
            }
            Demand::WellFormed(RPacket::Ack(u16::from_be_bytes([buf[2], buf[3]])))
        }
        OP_ERROR => {
            if buf.len() < 4 {
                return Demand::MustReject("ERROR shorter than its 4-byte header");
            }
            let code = u16::from_be_bytes([buf[2], buf[3]]);
            if code > 7 {
                return Demand::MustReject("unknown error code");
            }
            match cstr(buf, 4) {
                None => Demand::Open("ERROR message without NUL (accepted by the pinned test suite)"),
                Some((msg, end)) => {
                    if end != buf.len() {
                        Demand::Open("bytes after the ERROR message terminator")
                    } else if std::str::from_utf8(msg).is_err() {
                        Demand::Open("non UTF-8 error message")
                    } else {
                        Demand::WellFormed(RPacket::Error { code, msg: msg.to_vec() })
                    }
                }
            }
        }
        OP_OACK => match ref_options(buf, 2) {
            Err(why) => Demand::MustReject(why),
            Ok((_, Some(why))) => Demand::Open(why),
            Ok((options, None)) => Demand::WellFormed(RPacket::Oack(options)),
        },
        _ => Demand::MustReject("unknown opcode"),
    }
}

/// Plain decoder for the model peers (accepts what `demand` calls well-formed,
/// plus DATA/ACK/ERROR in the obvious liberal reading).
pub fn decode(buf: &[u8]) -> Option<RPacket> {
    match demand(buf) {
        Demand::WellFormed(p) => Some(p),
        Demand::Open(_) => {
            let op = u16::from_be_bytes([buf[0], buf[1]]);
            match op {
                OP_ACK => Some(RPacket::Ack(u16::from_be_bytes([buf[2], buf[3]]))),
                OP_ERROR => Some(RPacket::Error {
                    code: u16::from_be_bytes([buf[2], buf[3]]),
                    msg: buf[4..].iter().take_while(|&&b| b != 0).cloned().collect(),
                }),
                _ => None,
            }
        }
        Demand::MustReject(_) => None,
    }
}
