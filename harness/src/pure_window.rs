//! C18 — model-based test of the public `tftpd::Window`.

use crate::pure::PureReport;
use crate::util::{Json, Rng};
use std::collections::VecDeque;
use std::fs::File;
use std::panic::{catch_unwind, AssertUnwindSafe};
use std::path::{Path, PathBuf};
use std::sync::atomic::{AtomicUsize, Ordering};
use std::sync::{Arc, Mutex};
use tftpd::Window;

#[derive(Clone, Copy, Debug, PartialEq)]
enum Op {
    Fill,
    Remove(u16),
    /// remove(len + extra)
    RemoveRel(u16),
    Add(usize), // piece length
    Empty,
}

struct Model {
    file: Vec<u8>, // reader: source bytes; writer: bytes written so far
    pos: usize,
    eof: bool,
    dq: VecDeque<Vec<u8>>,
    size: u16,
    chunk: usize,
    next_piece: u64,
}

fn piece(id: u64, len: usize) -> Vec<u8> {
    // every third piece is degenerate (all zero / all 0xFF / sparse): a content-sensitive shortcut must not lose it
    let seed = 0xC18 + id * 7919;
    let seed = match id % 6 {
        1 | 4 => crate::sim::with_kind(seed, crate::sim::KIND_ZEROS),
        2 => crate::sim::with_kind(seed, crate::sim::KIND_ONES),
        5 => crate::sim::with_kind(seed, crate::sim::KIND_SPARSE),
        _ => seed,
    };
    crate::sim::content(seed, 0, len as u64)
}

/// Runs one operation sequence on a real Window and the model in lock-step.
fn run_seq(reader: bool, size: u16, chunk: usize, src: &[u8], src_path: &Path, scratch: &Path, ops: &[Op], rep: &mut PureReport) {
    run_seq_grow(reader, size, chunk, src, src_path, scratch, ops, rep, 0)
}

/// `grow` > 0: the last `grow` bytes of `src` are appended to the source file through another handle after the Window
/// was created (a file that is still being written); the pieces handed out must still be the file's bytes in order.
#[allow(clippy::too_many_arguments)]
fn run_seq_grow(reader: bool, size: u16, chunk: usize, src: &[u8], src_path: &Path, scratch: &Path, ops: &[Op], rep: &mut PureReport, grow: usize) {
    rep.evaluations += 1;
    let file = if reader {
        File::open(src_path).expect("open source")
    } else {
        File::create(scratch).expect("create scratch")
    };
    let mut win = Window::new(size, chunk, file);
    if reader && grow > 0 {
        use std::io::Write;
        let mut f = std::fs::OpenOptions::new().append(true).open(src_path).expect("append to source");
        f.write_all(&src[src.len() - grow..]).expect("append");
    }
    let mut m = Model { file: if reader { src.to_vec() } else { vec![] }, pos: 0, eof: false, dq: VecDeque::new(), size, chunk, next_piece: 0 };
    let describe = |upto: usize| Json::obj().set("mode", Json::s(if reader { "reader" } else { "writer" })).set("size", Json::i(size)).set("chunk", Json::u(chunk)).set("file_len", Json::u(src.len())).set("ops", Json::s(&format!("{:?}", &ops[..=upto.min(ops.len() - 1)])));
    let mut interesting = false;
    for (i, op) in ops.iter().enumerate() {
        let step = catch_unwind(AssertUnwindSafe(|| -> Result<(), String> {
            match *op {
                Op::Fill if !reader => {
                    // the handle of a receiving window cannot be read: whatever fill() returns, it must not change
                    // what is buffered (the comparison with the model below sees a phantom piece).
                    // (Miri cannot represent the EBADF of that read, so the step is left out of the Miri slice.)
                    if !cfg!(miri) {
                        let _ = win.fill();
                    }
                }
                Op::Fill => {
                    let r = win.fill().map_err(|e| format!("fill failed: {e}"))?;
                    // model
                    if !m.eof {
                        while (m.dq.len() as u16) < m.size {
                            let end = (m.pos + m.chunk).min(m.file.len());
                            let p = m.file[m.pos..end].to_vec();
                            m.pos = end;
                            let short = p.len() < m.chunk;
                            m.dq.push_back(p);
                            if short {
                                m.eof = true;
                                break;
                            }
                        }
                    }
                    if r && win.len() != size {
                        return Err(format!("fill returned true but the window holds {} of {}", win.len(), size));
                    }
                    if !r && !m.eof {
                        return Err("fill returned false although the file is not exhausted".into());
                    }
                }
                Op::Remove(_) | Op::RemoveRel(_) => {
                    let k = match *op {
                        Op::Remove(k) => k,
                        Op::RemoveRel(x) => (m.dq.len() as u16).saturating_add(x),
                        _ => 0,
                    };
                    let r = win.remove(k);
                    if k as usize > m.dq.len() {
                        if r.is_ok() {
                            return Err(format!("remove({k}) succeeded on a window of {}", m.dq.len()));
                        }
                    } else {
                        r.map_err(|e| format!("remove({k}) failed on a window of {}: {e}", m.dq.len()))?;
                        m.dq.drain(0..k as usize);
                    }
                }
                Op::Add(len) => {
                    let p = piece(m.next_piece, len);
                    m.next_piece += 1;
                    let r = win.add(p.clone());
                    if m.dq.len() as u16 == m.size {
                        if r.is_ok() {
                            return Err("add succeeded on a full window".into());
                        }
                    } else {
                        r.map_err(|e| format!("add failed on a window of {}/{}: {e}", m.dq.len(), m.size))?;
                        m.dq.push_back(p);
                    }
                }
                Op::Empty => {
                    win.empty().map_err(|e| format!("empty failed: {e}"))?;
                    for p in m.dq.drain(..) {
                        m.file.extend_from_slice(&p);
                    }
                    let on_disk = std::fs::read(scratch).map_err(|e| e.to_string())?;
                    if on_disk != m.file {
                        return Err(format!("after empty the file holds {} bytes, expected the {} bytes of all pieces in order", on_disk.len(), m.file.len()));
                    }
                }
            }
            // observable state
            if win.len() as usize != m.dq.len() {
                return Err(format!("len() = {} but the model holds {}", win.len(), m.dq.len()));
            }
            if win.len() > size {
                return Err(format!("window holds {} pieces, more than its size {}", win.len(), size));
            }
            if win.is_empty() != m.dq.is_empty() || win.is_full() != (m.dq.len() as u16 == m.size) {
                return Err("is_empty()/is_full() disagree with len()".into());
            }
            if win.get_elements() != &m.dq {
                let got: Vec<usize> = win.get_elements().iter().map(|p| p.len()).collect();
                let want: Vec<usize> = m.dq.iter().map(|p| p.len()).collect();
                return Err(format!("buffered pieces differ from the model: piece lengths {:?} vs {:?} (content compared too)", got, want));
            }
            Ok(())
        }));
        match step {
            Err(_) => {
                rep.violate("C18/panic", format!("Window panicked at op {i} {:?}", op), describe(i));
                return;
            }
            Ok(Err(why)) => {
                let kind = match op {
                    Op::Fill => "fill",
                    Op::Remove(_) | Op::RemoveRel(_) => "remove",
                    Op::Add(_) => "add",
                    Op::Empty => "empty",
                };
                rep.violate(&format!("C18/{kind}"), format!("op {i} {:?}: {why}", op), describe(i));
                return;
            }
            Ok(Ok(())) => {}
        }
        if m.eof || m.dq.len() as u16 == m.size {
            interesting = true;
        }
    }
    if interesting {
        rep.nontrivial += 1;
        let mut h = crate::util::fnv(format!("{reader}{size}/{chunk}/{}", src.len()).as_bytes());
        for op in ops {
            h = crate::util::mix64(h ^ crate::util::fnv(format!("{:?}", op).as_bytes()));
        }
        rep.distinct.insert(h);
        if m.eof {
            rep.class("reached-end-of-file");
        }
    }
    if rep.samples.len() < 3 && rep.evaluations % 7919 == 11 {
        rep.samples.push(describe(ops.len() - 1).set("final_len", Json::u(m.dq.len())));
    }
}

fn scratch_dir() -> PathBuf {
    let d = crate::runner::workdir().join("c18");
    std::fs::create_dir_all(&d).unwrap();
    d
}

pub fn c18(thorough: bool, miri: bool, seed: u64, threads: usize) -> Json {
    let maxlen = if miri { 2 } else if thorough { 7 } else { 5 };
    let nrandom = if miri { 64 } else if thorough { 200_000 } else { 10_000 };
    let dir = scratch_dir();
    // configurations
    let mut cfgs: Vec<(u16, usize, usize)> = Vec::new();
    for size in [1u16, 2, 3] {
        for chunk in [1usize, 2, 4] {
            let sc = size as usize * chunk;
            let mut lens = vec![0, 1, chunk.saturating_sub(1), chunk, chunk + 1, sc.saturating_sub(1), sc, sc + 1, 2 * sc, 3 * sc + 1];
            lens.sort();
            lens.dedup();
            for l in lens {
                cfgs.push((size, chunk, l));
            }
        }
    }
    if miri {
        // the interpreter is ~4 orders of magnitude slower: a handful of configurations only
        cfgs.truncate(3);
    }
    let cfgs = Arc::new(cfgs);
    let next = Arc::new(AtomicUsize::new(0));
    let total = Arc::new(Mutex::new(PureReport::default()));
    let mut hs = vec![];
    for tid in 0..threads {
        let (cfgs, next, total, dir) = (cfgs.clone(), next.clone(), total.clone(), dir.clone());
        hs.push(std::thread::spawn(move || {
            let mut rep = PureReport::default();
            let src_path = dir.join(format!("src{tid}.bin"));
            let scratch = dir.join(format!("out{tid}.bin"));
            loop {
                let i = next.fetch_add(1, Ordering::SeqCst);
                // work items: cfgs (reader, exhaustive), then 3 writer items, then random items
                if i < cfgs.len() {
                    let (size, chunk, flen) = cfgs[i];
                    let src = crate::sim::content(0xF11E + i as u64, 0, flen as u64);
                    std::fs::write(&src_path, &src).unwrap();
                    let alphabet = [Op::Fill, Op::Remove(0), Op::Remove(1), Op::RemoveRel(0), Op::RemoveRel(1), Op::Add(chunk)];
                    for len in 1..=maxlen {
                        let total_seq = alphabet.len().pow(len as u32);
                        for code in 0..total_seq {
                            let mut c = code;
                            let ops: Vec<Op> = (0..len)
                                .map(|_| {
                                    let o = alphabet[c % alphabet.len()];
                                    c /= alphabet.len();
                                    o
                                })
                                .collect();
                            run_seq(true, size, chunk, &src, &src_path, &scratch, &ops, &mut rep);
                        }
                    }
                    rep.class("reader-config-exhausted");
                } else if i < cfgs.len() + 6 {
                    // four window sizes with 4-byte pieces, then sector- and page-sized pieces
                    let (size, wchunk) = [(1u16, 4usize), (2, 4), (3, 4), (4, 4), (2, 512), (3, 4096)][i - cfgs.len()];
                    let alphabet = [Op::Add(wchunk), Op::Add(wchunk - 1), Op::Add(0), Op::Remove(1), if size <= 2 { Op::Fill } else { Op::RemoveRel(1) }, Op::Empty];
                    for len in 1..=maxlen + 1 {
                        let total_seq = alphabet.len().pow(len as u32);
                        for code in 0..total_seq {
                            let mut c = code;
                            let ops: Vec<Op> = (0..len)
                                .map(|_| {
                                    let o = alphabet[c % alphabet.len()];
                                    c /= alphabet.len();
                                    o
                                })
                                .collect();
                            run_seq(false, size, wchunk, &[], &src_path, &scratch, &ops, &mut rep);
                        }
                    }
                    rep.class("writer-config-exhausted");
                } else if i == cfgs.len() + 6 && miri {
                    // skipped under Miri
                } else if i == cfgs.len() + 6 {
                    // many buffered pieces flushed at once (sizes around 1024 = IOV_MAX, and the u16 maximum)
                    for (size, adds) in [(1023u16, 1023usize), (1024, 1024), (1025, 1025), (1100, 1100), (2048, 2000), (4096, 4096), (65535, 3000)] {
                        for piece_len in [1usize, 6, 8] {
                            let mut ops: Vec<Op> = (0..adds).map(|_| Op::Add(piece_len)).collect();
                            ops.push(Op::Empty);
                            ops.push(Op::Add(3));
                            ops.push(Op::Empty);
                            run_seq(false, size, 8, &[], &src_path, &scratch, &ops, &mut rep);
                        }
                    }
                    rep.class("writer-large-window");
                } else if i < cfgs.len() + 7 + 64 {
                    // seeded random long sequences with large parameters
                    let mut r = Rng::new(seed.wrapping_mul(977).wrapping_add(i as u64));
                    for _ in 0..(if miri { (i == cfgs.len() + 7) as usize * 2 } else { nrandom / 64 }) {
                        let size = *r.pick(&[1u16, 2, 3, 7, 64, 1000, 65534, 65535]);
                        let chunk = *r.pick(&[1usize, 8, 9, 512, 1428, 4096, 8192, 65464]);
                        let reader = r.chance(600);
                        let max_file = (size as usize * chunk * 3).min(300_000);
                        let flen = if r.chance(300) { (r.below(4) as usize) * chunk } else { r.below(max_file as u64 + 1) as usize };
                        let src_seed = match r.below(4) {
                            0 => crate::sim::with_kind(r.next(), crate::sim::KIND_ZEROS),
                            1 => crate::sim::with_kind(r.next(), crate::sim::KIND_SPARSE),
                            _ => r.next(),
                        };
                        let src = if reader { crate::sim::content(src_seed, 0, flen as u64) } else { vec![] };
                        // one in eight reader runs: the source keeps growing after the Window exists; one in sixteen: a
                        // file whose metadata reports length 0 although it has content (procfs)
                        let special = if reader { r.below(16) } else { 99 };
                        let grow = if special < 2 && src.len() > 1 { 1 + r.below(src.len() as u64 - 1) as usize } else { 0 };
                        let proc_src: Option<Vec<u8>> = if special == 2 { std::fs::read("/proc/version").ok() } else { None };
                        if reader {
                            std::fs::write(&src_path, &src[..src.len() - grow]).unwrap();
                        }
                        let n = r.range(1, if size > 1000 { 30 } else { 200 }) as usize;
                        let mut held = 0usize;
                        let ops: Vec<Op> = (0..n)
                            .map(|_| {
                                let o = match (reader, r.below(10)) {
                                    (true, 0..=3) => Op::Fill,
                                    (true, 4..=5) => Op::Remove(r.below(4) as u16),
                                    (true, 6) => Op::RemoveRel(r.below(2) as u16),
                                    (true, 7) => Op::Remove(r.below(size as u64 + 2) as u16),
                                    (true, _) => Op::Add(chunk.min(64)),
                                    (false, 0..=5) => Op::Add(if r.chance(800) { chunk.min(9000) } else { r.below(chunk.min(9000) as u64 + 1) as usize }),
                                    (false, 6) => if r.chance(300) { Op::Fill } else { Op::Remove(r.below(3) as u16) },
                                    (false, 7) => Op::RemoveRel(r.below(2) as u16),
                                    (false, _) => Op::Empty,
                                };
                                if let Op::Add(l) = o {
                                    held += l;
                                }
                                o
                            })
                            .collect();
                        let _ = held;
                        if let Some(ps) = &proc_src {
                            run_seq(true, size, chunk.min(64), ps, Path::new("/proc/version"), &scratch, &ops, &mut rep);
                            rep.class("reader-procfs-source");
                            continue;
                        }
                        run_seq_grow(reader, size, chunk, &src, &src_path, &scratch, &ops, &mut rep, grow);
                        if grow > 0 {
                            rep.class("reader-growing-source");
                        }
                    }
                    rep.class("random-batch");
                } else {
                    break;
                }
            }
            let _ = std::fs::remove_file(&src_path);
            let _ = std::fs::remove_file(&scratch);
            total.lock().unwrap().merge(rep);
        }));
    }
    for h in hs {
        let _ = h.join();
    }
    let _ = std::fs::remove_dir_all(crate::runner::workdir());
    let rep = std::mem::take(&mut *total.lock().unwrap());
    rep.to_json(
        "C18",
        "a reference model (file bytes, read cursor, end-of-file flag, deque of pieces) is stepped in lock-step with the real tftpd::Window over a real file; after every operation the return value class (Ok/Err), len(), is_empty(), is_full() and get_elements() are compared, after empty() the file content; fill must hand out consecutive chunk-size pieces ending with the first short one and nothing after it; fill()==true implies full, fill()==false implies end of file. non-trivial = the sequence reached end of file or a full window; distinct = distinct (configuration, operation sequence).",
        &format!("exhaustive: all operation sequences of length 1..{maxlen} over {{fill, remove(0), remove(1), remove(len), remove(len+1), add}} for size in {{1,2,3}} x chunk in {{1,2,4}} x 10 file lengths around chunk/window multiples (reader mode), and all sequences of length 1..{} over {{add(full), add(short), add(empty), remove(1), remove(len+1), empty}} for size 1..4 (writer mode). Random sequences up to 200 operations with size up to 65535 and chunk up to 65464 are seeded samples.", maxlen + 1),
    )
}
