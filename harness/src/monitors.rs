//! Offline monitors over the event log of one simulated transfer.
//! Each rule is a deterministic oracle phrased from the property text; the
//! `hits` map counts how often a rule's premise was actually met (non-vacuous
//! evaluations), which is what the evidence reports.

use crate::peers::PeerState;
use crate::sim::{block_slice, content, CaseSpec, EndHow, Ev, Outcome, Pk, Role};
use std::collections::BTreeMap;

#[derive(Clone, Debug)]
pub struct Finding {
    pub rule: &'static str,
    pub at: usize,
    pub detail: String,
}

#[derive(Default, Debug)]
pub struct Analysis {
    pub findings: Vec<Finding>,
    pub hits: BTreeMap<&'static str, u64>,
    pub classes: BTreeMap<&'static str, u64>,
    pub shape: u64,
    pub completed: bool,
    /// max number of consecutive failed receive attempts between progress events
    pub max_consecutive_failures: u32,
    pub wraps: u64,
    pub progress_in_last_half: bool,
    pub capped_with_progress: bool,
}

impl Analysis {
    fn hit(&mut self, r: &'static str) {
        *self.hits.entry(r).or_insert(0) += 1;
    }
    fn class(&mut self, c: &'static str) {
        *self.classes.entry(c).or_insert(0) += 1;
    }
    fn fail(&mut self, rule: &'static str, at: usize, detail: String) {
        if self.findings.iter().filter(|f| f.rule == rule).count() < 3 {
            self.findings.push(Finding { rule, at, detail });
        }
    }
}

/// Upper bound on consecutive receive timeouts before giving up that is still
/// accepted as "bounded" (C04 fixes the useful minimum at 6).
pub const MAX_CONSECUTIVE_TIMEOUTS: u32 = 16;

fn shape_push(h: &mut u64, tok: u8) {
    *h ^= tok as u64;
    *h = h.wrapping_mul(0x0000_0100_0000_01B3);
}

pub fn analyze(spec: &CaseSpec, out: &Outcome) -> Analysis {
    let mut a = Analysis { shape: 0xcbf2_9ce4_8422_2325, ..Default::default() };
    match spec.role {
        Role::Send => sender(spec, out, &mut a),
        Role::Recv => receiver(spec, out, &mut a),
    }
    repeat_rule(spec, out, &mut a);
    if out.end == EndHow::Panicked {
        a.fail("PANIC", out.log.len(), "worker thread panicked".into());
    }
    if out.end == EndHow::Capped {
        // a cap hit is a non-termination witness only if the transfer had stopped making progress; a transfer that
        // is still advancing when the harness budget runs out is a harness limit (inconclusive), not a violation
        if a.progress_in_last_half {
            a.class("cap-hit-while-progressing");
            a.capped_with_progress = true;
        } else {
            a.fail("UNBOUNDED", out.log.len(), format!("event cap {} reached with the worker still running and no progress in the second half of the trace", spec.max_events));
        }
    }
    a
}

/// C16: maximal runs of identical consecutive sends (no receive in between).
fn repeat_rule(spec: &CaseSpec, out: &Outcome, a: &mut Analysis) {
    let want = spec.repeat as usize;
    let mut i = 0;
    let log = &out.log;
    while i < log.len() {
        if let Ev::Send { pkt, .. } = &log[i] {
            let is_data_phase = matches!(pkt, Pk::Data { .. } | Pk::Ack(_));
            let mut j = i + 1;
            while j < log.len() {
                match &log[j] {
                    Ev::Send { pkt: p2, .. } if p2 == pkt => j += 1,
                    _ => break,
                }
            }
            if is_data_phase {
                a.hit("REPEAT");
                let run = j - i;
                // a window holding identical consecutive blocks cannot occur: contents are offset-keyed,
                // except for empty blocks, which carry different numbers
                if run != want && !(out.end == EndHow::Capped && j == log.len()) {
                    a.fail("REPEAT", i, format!("{:?} emitted {} times back to back, expected {}", pkt, run, want));
                }
            }
            i = j;
        } else {
            i += 1;
        }
    }
}

struct Burst {
    items: Vec<(u64, usize)>, // (abs, event index)
    vt: u64,
    max_sent_before: u64,
    last_burst_vt: Option<u64>,
    prev_recv_new_partial: bool,
    prev_recv_new_ack: Option<u64>,
}

impl Burst {
    /// closes the burst collected so far and applies R2 / R3
    fn close(&mut self, t: u64, a: &mut Analysis) {
        if self.items.is_empty() {
            return;
        }
        let first = self.items[0].0;
        let idx0 = self.items[0].1;
        let last = self.items.last().unwrap().0;
        for k in 1..self.items.len() {
            if self.items[k].0 != self.items[k - 1].0 + 1 {
                a.fail("R2", self.items[k].1, format!("burst not contiguous: block {} follows {}", self.items[k].0, self.items[k - 1].0));
                break;
            }
        }
        if let Some(k) = self.prev_recv_new_ack {
            a.hit("R2");
            if first != k + 1 {
                a.fail("R2", idx0, format!("after cumulative ACK of block {} transmission resumed at {} instead of {}", k, first, k + 1));
            }
        }
        let retransmits = self.items.iter().any(|(abs, _)| *abs <= self.max_sent_before);
        if retransmits {
            a.hit("R3");
            a.class("retransmission-burst");
            let by_timeout = match self.last_burst_vt {
                Some(v) => self.vt >= v + t,
                None => true,
            };
            if by_timeout {
                a.class("timeout-driven-burst");
            }
            if self.prev_recv_new_partial {
                a.class("gap-driven-burst");
            }
            if !(by_timeout || self.prev_recv_new_partial) {
                a.fail(
                    "R3",
                    idx0,
                    format!(
                        "blocks {}..{} retransmitted {} ns after the previous transmission (timeout {} ns) without an in-window ACK revealing a gap",
                        first,
                        last,
                        self.vt - self.last_burst_vt.unwrap_or(0),
                        t
                    ),
                );
            }
        }
        self.last_burst_vt = Some(self.vt);
        self.items.clear();
    }
}

fn sender(spec: &CaseSpec, out: &Outcome, a: &mut Analysis) {
    let n = spec.nblocks();
    let w = spec.w as u64;
    let t = spec.t_ns;
    let log = &out.log;
    let mut acked: u64 = 0;
    let mut max_sent: u64 = 0;
    let mut bu = Burst { items: Vec::new(), vt: 0, max_sent_before: 0, last_burst_vt: None, prev_recv_new_partial: false, prev_recv_new_ack: None };
    let mut pending_stale: Option<(usize, u64)> = None; // stale ACK delivered at (idx, vt) before the timeout
    let mut got_error: Option<usize> = None;
    let mut final_acked: Option<usize> = None;
    let mut consecutive_fail: u32 = 0;
    let mut consecutive_timeouts: u32 = 0;
    let mut handshake_pending = spec.check_response;
    let mut handshake_failed = false;
    let mut last_data_sig: Option<(u16, usize, u64)> = None;

    for (i, ev) in log.iter().enumerate() {
        match ev {
            Ev::Send { vt, pkt, .. } => {
                shape_push(&mut a.shape, 1);
                if let Some(e) = got_error {
                    a.fail("AFTER_ERROR", i, format!("sent {:?} after the peer's ERROR (event {})", pkt, e));
                }
                if let Some(e) = final_acked {
                    a.fail("AFTER_FINAL", i, format!("sent {:?} after the final block was acknowledged (event {})", pkt, e));
                }
                if let Some((si, svt)) = pending_stale.take() {
                    a.fail("R4", i, format!("duplicate/stale ACK delivered at event {} (vt {}) was followed by a transmission of {:?}", si, svt, pkt));
                }
                match pkt {
                    Pk::Data { blk, len, abs } => {
                        // repeated copies of one datagram (duplicate-packets mode) are one logical send
                        let sig = (*blk, *len, *abs);
                        if spec.repeat > 1 && last_data_sig == Some(sig) && bu.items.last().map(|x| x.0) == Some(*abs) {
                            continue;
                        }
                        last_data_sig = Some(sig);
                        a.hit("CONTENT");
                        if bu.items.is_empty() {
                            bu.vt = *vt;
                            bu.max_sent_before = max_sent;
                        }
                        if *abs == 0 {
                            a.fail("CONTENT", i, format!("DATA block number {} with {} payload bytes matches no file slice [(k-1)*blksize, k*blksize) for k = {} mod 65536", blk, len, blk));
                            shape_push(&mut a.shape, 9);
                            continue;
                        }
                        if *abs > n {
                            a.fail("BEYOND_FINAL", i, format!("DATA for block {} emitted but the final block is {}", abs, n));
                        } else {
                            let want = block_slice(spec, *abs).len();
                            if *len != want {
                                a.fail("CONTENT", i, format!("block {} carries {} bytes, expected {}", abs, len, want));
                            }
                        }
                        if *abs > 65535 {
                            a.wraps += 1;
                        }
                        a.hit("R1");
                        if *abs > acked + w {
                            a.fail("R1", i, format!("block {} sent while last acknowledged block is {} and windowsize {}", abs, acked, w));
                        }
                        if *abs <= acked {
                            a.fail("R2", i, format!("block {} sent although block {} was already acknowledged", abs, acked));
                        }
                        shape_push(&mut a.shape, if *abs > max_sent { 2 } else { 3 });
                        bu.items.push((*abs, i));
                        if *abs > max_sent {
                            max_sent = *abs;
                        }
                    }
                    Pk::Error(_) => {
                        shape_push(&mut a.shape, 4);
                    }
                    other => {
                        a.fail("CONTENT", i, format!("sender emitted unexpected {:?}", other));
                    }
                }
            }
            Ev::RecvOk { vt, pkt, .. } => {
                bu.close(t, a);
                bu.prev_recv_new_partial = false;
                bu.prev_recv_new_ack = None;
                pending_stale = None;
                last_data_sig = None;
                if got_error.is_some() || final_acked.is_some() {
                    a.fail(if got_error.is_some() { "AFTER_ERROR" } else { "AFTER_FINAL" }, i, "worker kept receiving after the transfer had ended".into());
                }
                match pkt {
                    Pk::Ack(k) => {
                        if handshake_pending {
                            handshake_pending = false;
                            shape_push(&mut a.shape, 10);
                            consecutive_fail = 0;
                            consecutive_timeouts = 0;
                            continue;
                        }
                        let d = (*k as i64 - (acked % 65536) as i64).rem_euclid(65536) as u64;
                        let outstanding = max_sent.saturating_sub(acked);
                        if d >= 1 && d <= outstanding {
                            acked += d;
                            a.progress_in_last_half = i * 2 >= log.len();
                            consecutive_fail = 0;
                            consecutive_timeouts = 0;
                            bu.prev_recv_new_ack = Some(acked);
                            if acked < max_sent {
                                bu.prev_recv_new_partial = true;
                                a.class("partial-ack");
                                shape_push(&mut a.shape, 12);
                            } else {
                                a.class("full-ack");
                                shape_push(&mut a.shape, 11);
                            }
                            if acked >= n {
                                final_acked = Some(i);
                            }
                        } else {
                            // acknowledges nothing outstanding: duplicate / stale (a number that was
                            // acknowledged before) or bogus (a number never sent) - only the former
                            // carries the R4 obligation
                            shape_push(&mut a.shape, 13);
                            let back = ((acked % 65536) as i64 - *k as i64).rem_euclid(65536) as u64;
                            let truly_stale = back <= acked && back < 32768;
                            if !truly_stale {
                                a.class("bogus-future-ack");
                                continue;
                            }
                            let since = bu.last_burst_vt.map(|v| vt.saturating_sub(v));
                            match since {
                                Some(s) if s < t => {
                                    a.hit("R4");
                                    a.class("stale-ack-before-timeout");
                                    pending_stale = Some((i, *vt));
                                }
                                Some(_) => a.class("stale-ack-at-or-after-timeout"),
                                None => {}
                            }
                        }
                    }
                    Pk::Error(_) => {
                        shape_push(&mut a.shape, 14);
                        a.hit("AFTER_ERROR");
                        if handshake_pending {
                            a.class("error-in-reply-to-oack");
                        }
                        got_error = Some(i);
                    }
                    _ => {
                        shape_push(&mut a.shape, 15);
                        if handshake_pending {
                            handshake_failed = true;
                        }
                        handshake_pending = false;
                        consecutive_fail += 1;
                        a.class("stray-non-ack");
                    }
                }
            }
            Ev::RecvTimeout { .. } | Ev::RecvJunk { .. } => {
                bu.close(t, a);
                bu.prev_recv_new_partial = false;
                bu.prev_recv_new_ack = None;
                pending_stale = None;
                last_data_sig = None;
                if handshake_pending {
                    handshake_failed = true;
                }
                handshake_pending = false;
                shape_push(&mut a.shape, if matches!(ev, Ev::RecvTimeout { .. }) { 20 } else { 21 });
                consecutive_fail += 1;
                if matches!(ev, Ev::RecvTimeout { .. }) {
                    consecutive_timeouts += 1;
                    if consecutive_timeouts > MAX_CONSECUTIVE_TIMEOUTS {
                        a.fail("UNBOUNDED", i, format!("{} consecutive receive timeouts without giving up", consecutive_timeouts));
                    }
                } else {
                    consecutive_timeouts = 0;
                }
                a.max_consecutive_failures = a.max_consecutive_failures.max(consecutive_fail);
                if got_error.is_some() || final_acked.is_some() {
                    a.fail(if got_error.is_some() { "AFTER_ERROR" } else { "AFTER_FINAL" }, i, "worker kept receiving after the transfer had ended".into());
                }
            }
            Ev::Cap => {}
        }
    }
    bu.close(t, a);
    if let Some((si, svt)) = pending_stale {
        if out.end != EndHow::Capped {
            a.fail("R4", log.len(), format!("transfer ended right after the duplicate/stale ACK delivered at event {} (vt {})", si, svt));
        }
    }
    if final_acked.is_some() {
        a.hit("AFTER_FINAL");
    }
    a.completed = final_acked.is_some() && out.end == EndHow::Joined;
    // a sender that stops although nothing failed (no ERROR, no run of 6 failed receives at the end) and the final
    // block was never sent has dropped the end of the transfer
    // a failed `send` (injected local error) is a legitimate reason to abandon the transfer
    let send_failed = spec.rules.iter().any(|r| matches!(r, crate::sim::Rule::SendFail { .. }));
    if out.end == EndHow::Joined && final_acked.is_none() && got_error.is_none() && max_sent < n && !handshake_failed && !send_failed {
        // failed receive attempts since the last progress (stale ACKs in between do not reset the worker's count)
        let tail_failures = consecutive_fail as usize;
        a.hit("ENDED_EARLY");
        if tail_failures < 6 && !log.is_empty() {
            a.fail("ENDED_EARLY", log.len(), format!("the worker ended after sending blocks up to {} of {} although no ERROR arrived and only {} receive attempt(s) failed at the end: the final block was never emitted", max_sent, n, tail_failures));
        }
    }

    // end-to-end: an in-order reassembling client holds a byte-identical copy or no completed copy
    if let Some(bytes) = &out.peer_bytes {
        a.hit("E2E");
        if *bytes != content(spec.seed, 0, spec.len) {
            a.fail("E2E", log.len(), format!("client completed with {} bytes that differ from the {}-byte file", bytes.len(), spec.len));
        }
    }
    a.class(match out.peer {
        PeerState::Complete => "peer-complete",
        PeerState::GaveUp => "peer-gave-up",
        PeerState::Aborted => "peer-aborted",
        PeerState::Running => "peer-running",
    });
}

fn receiver(spec: &CaseSpec, out: &Outcome, a: &mut Analysis) {
    let n = spec.nblocks();
    let w = spec.w as u64;
    let log = &out.log;
    let mut inseq: u64 = 0; // blocks delivered in sequence
    let mut last_ack: u64 = 0;
    let mut since_ack: u64 = 0; // consecutive in-sequence blocks since the last ACK emission
    let mut must_ack: Option<(usize, &'static str)> = None;
    let mut got_error: Option<usize> = None;
    let mut final_ack_sent: Option<usize> = None;
    let mut consecutive_fail: u32 = 0;
    let mut consecutive_timeouts: u32 = 0;
    let mut last_send: Option<Pk> = None;

    for (i, ev) in log.iter().enumerate() {
        match ev {
            Ev::Send { pkt, file_len, file_prefix_ok, .. } => {
                shape_push(&mut a.shape, 1);
                if let Some(e) = got_error {
                    a.fail("AFTER_ERROR", i, format!("sent {:?} after the peer's ERROR (event {})", pkt, e));
                }
                // repeated copies (duplicate-packets mode)
                let is_copy = spec.repeat > 1 && last_send.as_ref() == Some(pkt);
                if let Some(e) = final_ack_sent {
                    if !is_copy {
                        a.fail("AFTER_FINAL", i, format!("sent {:?} after the final block had been acknowledged (event {})", pkt, e));
                    }
                }
                last_send = Some(pkt.clone());
                match pkt {
                    Pk::Ack(k) => {
                        a.hit("ACK_SEEN");
                        let d = ((inseq % 65536) as i64 - *k as i64).rem_euclid(65536) as u64;
                        if d > inseq {
                            a.fail("ACK_UNSEEN", i, format!("ACK {} emitted but only {} blocks have arrived in sequence", k, inseq));
                            shape_push(&mut a.shape, 9);
                            continue;
                        }
                        let abs = inseq - d;
                        if abs < last_ack {
                            a.fail("ACK_UNSEEN", i, format!("ACK {} resolves to block {}, behind the previously acknowledged block {} ({} in sequence): it acknowledges a block number not received in sequence", k, abs, last_ack, inseq));
                        }
                        if abs > 65535 {
                            a.wraps += 1;
                        }
                        a.hit("FILE_AT_ACK");
                        let need = (abs * spec.b as u64).min(spec.len);
                        if *file_len < 0 {
                            a.fail("FILE_AT_ACK", i, format!("ACK {} emitted but the target file does not exist", k));
                        } else if !*file_prefix_ok {
                            a.fail("FILE_AT_ACK", i, format!("at ACK {} the file ({} bytes) is not a prefix of the uploaded bytes", k, file_len));
                        } else if (*file_len as u64) < need {
                            a.fail("FILE_AT_ACK", i, format!("at ACK {} (block {}) the file holds {} bytes, fewer than the {} acknowledged", k, abs, file_len, need));
                        }
                        if abs == n && *file_len >= 0 && *file_len as u64 != spec.len {
                            a.fail("FILE_AT_ACK", i, format!("at the final ACK the file holds {} bytes, the upload has {}", file_len, spec.len));
                        }
                        if must_ack.is_some() && abs != inseq && !is_copy {
                            a.fail("R5", i, format!("expected ACK of block {} ({}), got ACK resolving to {}", inseq, must_ack.unwrap().1, abs));
                        }
                        must_ack = None;
                        shape_push(&mut a.shape, if abs > last_ack { 2 } else { 3 });
                        if abs == last_ack && abs > 0 {
                            a.class("re-ack");
                        }
                        last_ack = last_ack.max(abs);
                        since_ack = 0;
                        if abs == n {
                            final_ack_sent = Some(i);
                        }
                    }
                    Pk::Error(_) => shape_push(&mut a.shape, 4),
                    other => a.fail("ACK_UNSEEN", i, format!("receiver emitted unexpected {:?}", other)),
                }
            }
            Ev::RecvOk { pkt, .. } => {
                last_send = None;
                if let Some((at, why)) = must_ack.take() {
                    a.fail("R5", i, format!("no ACK emitted although required at event {} ({})", at, why));
                }
                if got_error.is_some() || final_ack_sent.is_some() {
                    a.fail(if got_error.is_some() { "AFTER_ERROR" } else { "AFTER_FINAL" }, i, "worker kept receiving after the transfer had ended".into());
                }
                match pkt {
                    Pk::Data { abs, len, .. } => {
                        let full = block_slice(spec, *abs).len();
                        if *abs == inseq + 1 && *len == full {
                            inseq += 1;
                            a.progress_in_last_half = i * 2 >= log.len();
                            since_ack += 1;
                            consecutive_fail = 0;
                            consecutive_timeouts = 0;
                            shape_push(&mut a.shape, 11);
                            if inseq == n {
                                a.hit("R6");
                                must_ack = Some((i, "final block"));
                            } else if since_ack >= w {
                                a.hit("R5");
                                must_ack = Some((i, "windowsize consecutive in-order blocks"));
                            }
                        } else if *abs <= inseq {
                            a.class("duplicate-data");
                            shape_push(&mut a.shape, 12);
                        } else {
                            a.class("gap-data");
                            shape_push(&mut a.shape, 13);
                        }
                    }
                    Pk::Error(_) => {
                        a.hit("AFTER_ERROR");
                        shape_push(&mut a.shape, 14);
                        got_error = Some(i);
                    }
                    _ => {
                        a.class("stray-non-data");
                        shape_push(&mut a.shape, 15);
                        consecutive_fail += 1;
                    }
                }
            }
            Ev::RecvTimeout { .. } | Ev::RecvJunk { .. } => {
                last_send = None;
                shape_push(&mut a.shape, if matches!(ev, Ev::RecvTimeout { .. }) { 20 } else { 21 });
                if let Some((at, why)) = must_ack.take() {
                    a.fail("R5", i, format!("no ACK emitted although required at event {} ({})", at, why));
                }
                consecutive_fail += 1;
                if matches!(ev, Ev::RecvTimeout { .. }) {
                    consecutive_timeouts += 1;
                    if consecutive_timeouts > MAX_CONSECUTIVE_TIMEOUTS {
                        a.fail("UNBOUNDED", i, format!("{} consecutive receive timeouts without giving up", consecutive_timeouts));
                    }
                } else {
                    consecutive_timeouts = 0;
                }
                a.max_consecutive_failures = a.max_consecutive_failures.max(consecutive_fail);
                if got_error.is_some() || final_ack_sent.is_some() {
                    a.fail(if got_error.is_some() { "AFTER_ERROR" } else { "AFTER_FINAL" }, i, "worker kept receiving after the transfer had ended".into());
                }
            }
            Ev::Cap => {}
        }
    }
    if let Some((at, why)) = must_ack {
        if out.end != EndHow::Capped {
            a.fail("R5", log.len(), format!("worker ended without the ACK required at event {} ({})", at, why));
        }
    }
    if final_ack_sent.is_some() {
        a.hit("AFTER_FINAL");
    }
    a.completed = final_ack_sent.is_some() && out.end == EndHow::Joined;

    // final content / cleanup
    let sent = content(spec.seed, 0, spec.len);
    if a.completed {
        a.hit("FINAL_CONTENT");
        match &out.file_after {
            Some(f) if *f == sent => {}
            Some(f) => a.fail("FINAL_CONTENT", log.len(), format!("upload acknowledged to the end but the file holds {} bytes differing from the {} sent", f.len(), sent.len())),
            None => a.fail("FINAL_CONTENT", log.len(), "upload acknowledged to the end but the file does not exist".into()),
        }
    } else if out.end == EndHow::Capped && !a.capped_with_progress && matches!(out.peer, PeerState::GaveUp | PeerState::Aborted) && spec.clean && out.file_after.is_some() {
        // the client has given up but the worker neither ended nor cleaned up within the simulation budget
        a.hit("CLEANUP");
        a.fail("CLEANUP", log.len(), format!("upload failed (client {:?}) but the worker never ended, so the partial file was not removed", out.peer));
    } else if out.end == EndHow::Joined || out.end == EndHow::Panicked {
        a.hit("CLEANUP");
        if out.end == EndHow::Panicked {
            a.class("upload-worker-panicked");
        }
        a.class(if spec.clean { "failed-upload-clean" } else { "failed-upload-keep" });
        match (&out.file_after, spec.clean) {
            (Some(f), true) => a.fail("CLEANUP", log.len(), format!("upload failed with clean-on-error in force but a {}-byte file remains", f.len())),
            (None, false) => a.fail("CLEANUP", log.len(), "upload failed in keep-on-error mode but the partial file is gone".into()),
            (Some(f), false) => {
                if f.len() > sent.len() || f[..] != sent[..f.len()] {
                    a.fail("CLEANUP", log.len(), format!("kept partial file ({} bytes) is not a prefix of the bytes sent", f.len()));
                }
            }
            (None, true) => {}
        }
    }
    a.class(match out.peer {
        PeerState::Complete => "peer-complete",
        PeerState::GaveUp => "peer-gave-up",
        PeerState::Aborted => "peer-aborted",
        PeerState::Running => "peer-running",
    });
}
