//! Workload generators (case families) for the simulator-backed properties.

use crate::runner::baselines;
use crate::sim::{Act, CaseSpec, Dir, Outcome, PeerSpec, Role, Rule, Stray, LAT, MS, SEC};
use crate::util::Rng;

pub const T: u64 = 5 * SEC;

#[derive(Clone, Copy, Debug)]
pub struct Cfg {
    pub role: Role,
    pub b: usize,
    pub w: u16,
    pub len: u64,
    pub hs: bool,
    /// reference client acknowledges every `every` blocks (0 = per window)
    pub every: u16,
}

pub fn base_spec(c: &Cfg, seed: u64) -> CaseSpec {
    let n = c.len / c.b as u64 + 1;
    CaseSpec {
        label: String::new(),
        role: c.role,
        b: c.b,
        w: c.w,
        t_ns: T,
        read_timeout_ns: T,
        repeat: 1,
        check_response: c.hs && c.role == Role::Send,
        clean: true,
        len: c.len,
        seed: seed ^ (c.len.wrapping_mul(0x9E37) ^ (c.b as u64) << 32 ^ (c.w as u64) << 20),
        peer: PeerSpec { ack_every: c.every, ..PeerSpec::conformant(T) },
        rules: vec![],
        write_budget: None,
        // 50x the fault-free event count; very long transfers get 6x (a pathological run of a 65 537-block transfer
        // to a 13 M event cap costs a quarter of an hour and 2 GB per shard)
        max_events: if n > 5000 { 6 * (4 * n as usize + 8) } else { (50 * (4 * n as usize + 8)).max(10_000) },
        pre_existing: 0,
        write_rearm_at_recv: None,
    }
}

fn cfgname(c: &Cfg) -> String {
    format!("{}b{}w{}l{}{}{}", if c.role == Role::Send { "S" } else { "R" }, c.b, c.w, c.len, if c.hs { "h" } else { "" }, if c.every > 0 { format!("e{}", c.every) } else { String::new() })
}

/// file lengths around block / window boundaries
pub fn lens(b: usize, w: u16, rich: bool) -> Vec<u64> {
    let b = b as u64;
    let w = w as u64;
    let mut v = vec![0, 1, b - 1, b, b + 1, w * b - 1, w * b, w * b + 1, (w + 1) * b, 2 * w * b, 2 * w * b + 1];
    if rich {
        v.push(3 * w * b + 7);
    }
    v.sort();
    v.dedup();
    v
}

pub fn grid(roles: &[Role], bs: &[usize], ws: &[u16], rich: bool, hs_both: bool, max_bytes: u64) -> Vec<Cfg> {
    let mut v = Vec::new();
    for &role in roles {
        for &b in bs {
            for &w in ws {
                for len in lens(b, w, rich) {
                    if len > max_bytes {
                        continue;
                    }
                    v.push(Cfg { role, b, w, len, hs: false, every: 0 });
                    if hs_both && role == Role::Send {
                        v.push(Cfg { role, b, w, len, hs: true, every: 0 });
                    }
                }
            }
        }
    }
    v
}

pub struct Base {
    pub cfg: Cfg,
    pub spec: CaseSpec,
    pub n_w2p: usize,
    pub n_p2w: usize,
    pub n_bursts: usize,
    pub peer_outs: usize,
}

pub fn make_bases(cfgs: &[Cfg], seed: u64, threads: usize) -> Vec<(Base, Outcome)> {
    let specs: Vec<CaseSpec> = cfgs
        .iter()
        .map(|c| {
            let mut s = base_spec(c, seed);
            s.label = format!("baseline:{}", cfgname(c));
            s
        })
        .collect();
    let outs = baselines(specs, threads);
    cfgs.iter()
        .zip(outs)
        .map(|(c, (spec, out))| {
            (Base { cfg: *c, spec, n_w2p: out.n_w2p, n_p2w: out.n_p2w, n_bursts: out.burst_times.len(), peer_outs: out.peer_outs }, out)
        })
        .collect()
}

fn with(b: &Base, fam: &str, what: String, f: impl FnOnce(&mut CaseSpec)) -> CaseSpec {
    let mut s = b.spec.clone();
    s.label = format!("{}:{}:{}", fam, cfgname(&b.cfg), what);
    f(&mut s);
    s
}

pub const ACTS: [(Act, &str); 4] = [
    (Act::Drop, "drop"),
    (Act::Dup, "dup"),
    (Act::Delay(LAT + LAT / 2), "swap"),
    (Act::Delay(T + 100 * MS), "late"),
];

/// first datagram index of each direction that belongs to the data phase
fn first_idx(b: &Base, dir: Dir, protect_handshake: bool) -> usize {
    if protect_handshake && dir == Dir::P2W && b.spec.check_response {
        1
    } else {
        0
    }
}

/// every single fault on every datagram of the fault-free run (plus `extra` indices beyond)
pub fn fam_single(b: &Base, protect_handshake: bool, extra: usize, out: &mut Vec<CaseSpec>) {
    for (dir, cnt, dn) in [(Dir::W2P, b.n_w2p, "w2p"), (Dir::P2W, b.n_p2w, "p2w")] {
        for idx in first_idx(b, dir, protect_handshake)..cnt + extra {
            for (act, an) in ACTS {
                out.push(with(b, "single", format!("{dn}#{idx}:{an}"), |s| s.rules.push(Rule::Idx { dir, idx, act })));
            }
        }
    }
}

/// all pairs of faults
pub fn fam_pairs(b: &Base, protect_handshake: bool, extra: usize, out: &mut Vec<CaseSpec>) {
    let mut slots: Vec<(Dir, usize, &str)> = Vec::new();
    for (dir, cnt, dn) in [(Dir::W2P, b.n_w2p, "w2p"), (Dir::P2W, b.n_p2w, "p2w")] {
        for idx in first_idx(b, dir, protect_handshake)..cnt + extra {
            slots.push((dir, idx, dn));
        }
    }
    let acts = &ACTS[..3];
    for i in 0..slots.len() {
        for j in i + 1..slots.len() {
            for (a1, n1) in acts {
                for (a2, n2) in acts {
                    let (d1, i1, dn1) = slots[i];
                    let (d2, i2, dn2) = slots[j];
                    out.push(with(b, "pair", format!("{dn1}#{i1}:{n1}+{dn2}#{i2}:{n2}"), |s| {
                        s.rules.push(Rule::Idx { dir: d1, idx: i1, act: *a1 });
                        s.rules.push(Rule::Idx { dir: d2, idx: i2, act: *a2 });
                    }));
                }
            }
        }
    }
}

/// r consecutive losses of the same logical datagram
pub fn fam_rfold(b: &Base, rs: &[u32], out: &mut Vec<CaseSpec>) {
    let n = b.spec.nblocks();
    for abs in 1..=n {
        for &r in rs {
            // DATA abs travels W2P for a sending worker, P2W for a receiving one; ACK the other way
            let (ddir, adir) = if b.spec.role == Role::Send { (Dir::W2P, Dir::P2W) } else { (Dir::P2W, Dir::W2P) };
            out.push(with(b, "rfold", format!("data{abs}x{r}"), |s| s.rules.push(Rule::DropFirst { dir: ddir, is_data: true, abs, count: r })));
            out.push(with(b, "rfold", format!("ack{abs}x{r}"), |s| s.rules.push(Rule::DropFirst { dir: adir, is_data: false, abs, count: r })));
        }
    }
}

/// the negotiable timeout range (RFC 2349: 1..255 s): every logical DATA/ACK lost once and five times (`silence` =
/// false), or the peer silent from every step (`silence` = true), with worker, socket and peer timers all set to Tx
pub fn fam_timeouts(b: &Base, silence: bool, out: &mut Vec<CaseSpec>) {
    for tx in [1u64, 2, 11, 30, 59, 60, 61, 100, 255] {
        let scale = |s: &mut CaseSpec| {
            s.t_ns = tx * SEC;
            s.read_timeout_ns = tx * SEC;
            s.peer.timer_ns = tx * SEC;
        };
        if silence {
            for j in 0..=b.peer_outs {
                out.push(with(b, "timeouts", format!("T{tx}:silent-from#{j}"), |s| {
                    scale(s);
                    s.peer.silent_from = Some(j)
                }));
            }
        } else {
            let (ddir, adir) = if b.spec.role == Role::Send { (Dir::W2P, Dir::P2W) } else { (Dir::P2W, Dir::W2P) };
            for abs in 1..=b.spec.nblocks() {
                for r in [1u32, 5] {
                    out.push(with(b, "timeouts", format!("T{tx}:data{abs}x{r}"), |s| {
                        scale(s);
                        s.rules.push(Rule::DropFirst { dir: ddir, is_data: true, abs, count: r })
                    }));
                    out.push(with(b, "timeouts", format!("T{tx}:ack{abs}x{r}"), |s| {
                        scale(s);
                        s.rules.push(Rule::DropFirst { dir: adir, is_data: false, abs, count: r })
                    }));
                }
            }
        }
    }
}

/// a transient write error: the j-th chunk write fails, later writes succeed again (failpoint disarmed at a later receive
/// call), while a duplicated DATA block makes the receiver flush in mid-window
pub fn fam_transient_write(b: &Base, out: &mut Vec<CaseSpec>) {
    for j in 0..b.spec.nblocks().min(6) {
        for idx in 0..b.n_p2w.min(8) {
            for later in [1u64, 2, 3] {
                out.push(with(b, "transientwrite", format!("fail-after{j}:dup#{idx}:rearm+{later}"), |s| {
                    s.write_budget = Some(j);
                    s.write_rearm_at_recv = Some(idx as u64 + 1 + later);
                    s.rules.push(Rule::Idx { dir: Dir::P2W, idx, act: Act::Dup });
                }));
            }
        }
    }
}

/// one call of the socket's `send` fails (nothing is transmitted): at every position of the fault-free run
pub fn fam_send_fail(b: &Base, out: &mut Vec<CaseSpec>) {
    for idx in 0..(b.n_w2p + 1).min(40) {
        out.push(with(b, "sendfail", format!("#{idx}"), |s| s.rules.push(Rule::SendFail { idx })));
    }
}

/// degenerate file contents (all zero, sparse with holes, all 0xFF, text): fault-free, and with `faults` every single
/// drop on top
pub fn fam_content(b: &Base, faults: bool, out: &mut Vec<CaseSpec>) {
    use crate::sim::{with_kind, KIND_ONES, KIND_SPARSE, KIND_TEXT, KIND_ZEROS};
    for (kind, kn) in [(KIND_ZEROS, "zeros"), (KIND_SPARSE, "sparse"), (KIND_ONES, "ones"), (KIND_TEXT, "text")] {
        out.push(with(b, "content", kn.to_string(), |s| s.seed = with_kind(s.seed, kind)));
        if faults && (kind == KIND_ZEROS || kind == KIND_SPARSE) {
            for (dir, cnt, dn) in [(Dir::W2P, b.n_w2p, "w2p"), (Dir::P2W, b.n_p2w, "p2w")] {
                for idx in 0..cnt.min(24) {
                    out.push(with(b, "content", format!("{kn}:{dn}#{idx}:drop"), |s| {
                        s.seed = with_kind(s.seed, kind);
                        s.rules.push(Rule::Idx { dir, idx, act: Act::Drop })
                    }));
                }
            }
        }
    }
}

/// single drops with different peer timers, so that either side times out first
pub fn fam_timers(b: &Base, protect_handshake: bool, out: &mut Vec<CaseSpec>) {
    for (tp, tn) in [(T - 300 * MS, "Tp<T"), (T + 300 * MS, "Tp>T"), (2 * T, "Tp=2T"), (T / 2, "Tp=T/2")] {
        for (dir, cnt, dn) in [(Dir::W2P, b.n_w2p, "w2p"), (Dir::P2W, b.n_p2w, "p2w")] {
            for idx in first_idx(b, dir, protect_handshake)..cnt {
                out.push(with(b, "timers", format!("{tn}:{dn}#{idx}:drop"), |s| {
                    s.peer.timer_ns = tp;
                    s.rules.push(Rule::Idx { dir, idx, act: Act::Drop });
                }));
            }
        }
    }
}

/// bogus / duplicate / stale / in-window ACK numbers in front of every peer datagram (sender role)
pub fn fam_bogus_acks(b: &Base, rng: &mut Rng, out: &mut Vec<CaseSpec>) {
    let w = b.spec.w as i64;
    let mut strays: Vec<(Stray, String)> = Vec::new();
    for rel in -2..=(w + 2).min(8) {
        strays.push((Stray::AckRel(rel), format!("ackrel{rel:+}")));
    }
    for k in [0u16, 1, 65535, 32768] {
        strays.push((Stray::AckAbs(k), format!("ackabs{k}")));
    }
    strays.push((Stray::AckAbs(rng.below(65536) as u16), "ackrand".into()));
    for idx in 0..=b.n_p2w {
        for (st, sn) in &strays {
            out.push(with(b, "bogusack", format!("before#{idx}:{sn}"), |s| s.rules.push(Rule::InjectBefore { idx, stray: *st })));
        }
    }
}

/// stray datagrams in front of every peer datagram
pub fn fam_strays(b: &Base, out: &mut Vec<CaseSpec>) {
    let strays: Vec<(Stray, &str)> = if b.spec.role == Role::Recv {
        vec![
            (Stray::AckAbs(0), "ack0"),
            (Stray::AckRel(0), "ackcur"),
            (Stray::Oack, "oack"),
            (Stray::Junk, "junk"),
            (Stray::DataRel(0), "dup-last"),
            (Stray::DataRel(-1), "dup-older"),
            (Stray::DataRel(1), "next-early"),
            (Stray::DataRel(2), "future"),
            (Stray::DataRel(3), "future3"),
        ]
    } else {
        vec![(Stray::Oack, "oack"), (Stray::Junk, "junk"), (Stray::DataRel(1), "data")]
    };
    for idx in 0..=b.n_p2w {
        for (st, sn) in &strays {
            out.push(with(b, "stray", format!("before#{idx}:{sn}"), |s| s.rules.push(Rule::InjectBefore { idx, stray: *st })));
        }
    }
}

/// duplicate / stale ACKs at exact virtual-time offsets after every burst (sender role)
pub fn fam_stale_timing(b: &Base, depth: i64, out: &mut Vec<CaseSpec>) {
    let offsets: [(u64, &str); 6] = [(1000, "eps"), (T / 2, "T/2"), (T - 1, "T-1ns"), (T, "T"), (T + 1, "T+1ns"), (T + T / 2, "1.5T")];
    for burst in 0..b.n_bursts {
        for d in 0..=depth {
            for (off, on) in offsets {
                for suppress in [true, false] {
                    if !suppress && off != 1000 {
                        continue;
                    }
                    out.push(with(b, "staletime", format!("burst{burst}:ack-{d}@{on}{}", if suppress { ":suppress" } else { "" }), |s| {
                        s.rules.push(Rule::InjectAfterBurst { burst, offset: off, stray: Stray::AckRel(-d), suppress, suppress_for: 0 })
                    }));
                }
            }
        }
    }
}

/// peer falls silent / sends ERROR at every step
pub fn fam_silence_error(b: &Base, out: &mut Vec<CaseSpec>) {
    for j in 0..=b.peer_outs {
        out.push(with(b, "silent", format!("from#{j}"), |s| s.peer.silent_from = Some(j)));
        out.push(with(b, "error", format!("at#{j}"), |s| s.peer.error_at = Some(j)));
        out.push(with(b, "strayerr", format!("before#{j}"), |s| s.rules.push(Rule::InjectBefore { idx: j, stray: Stray::Error })));
    }
}

/// every acknowledgement pattern: the client acknowledges every k blocks, k = 1..w (sender role)
pub fn fam_ack_patterns(b: &Base, out: &mut Vec<CaseSpec>) {
    for k in 1..=b.spec.w.min(8) {
        for dally in [false, true] {
            out.push(with(b, "ackevery", format!("k{k}{}", if dally { ":dally" } else { "" }), |s| {
                s.peer.ack_every = k;
                s.peer.dally = dally;
            }));
        }
    }
}

/// injected write error after j chunk writes (receiver role)
pub fn fam_write_fail(b: &Base, out: &mut Vec<CaseSpec>) {
    let n = b.spec.nblocks();
    for j in 0..n {
        for clean in [true, false] {
            out.push(with(b, "writefail", format!("after{j}:{}", if clean { "clean" } else { "keep" }), |s| {
                s.write_budget = Some(j);
                s.clean = clean;
            }));
        }
    }
}

/// seeded random fault plans
pub fn fam_random(b: &Base, rng: &mut Rng, count: usize, max_faults: u64, out: &mut Vec<CaseSpec>) {
    // a percentage loss over tens of thousands of datagrams is a different experiment (hours of virtual time,
    // millions of events); long transfers get point faults only
    let allow_loss = b.spec.nblocks() <= 2000 && b.spec.w <= 64;
    for c in 0..count {
        let nf = rng.range(1, max_faults);
        let mut rules = Vec::new();
        for _ in 0..nf {
            let dir = if rng.chance(500) { Dir::W2P } else { Dir::P2W };
            let cnt = if dir == Dir::W2P { b.n_w2p } else { b.n_p2w } + 4;
            let lo = first_idx(b, dir, true);
            let idx = rng.range(lo as u64, (cnt.max(lo + 1) - 1) as u64) as usize;
            let act = ACTS[rng.below(4) as usize].0;
            rules.push(Rule::Idx { dir, idx, act });
        }
        if rng.chance(300) && allow_loss {
            rules.push(Rule::Loss { dir: if rng.chance(500) { Dir::W2P } else { Dir::P2W }, permille: rng.range(10, 300) as u32, seed: rng.next() });
        }
        let tp = *rng.pick(&[T, T - 300 * MS, T + 300 * MS, 2 * T]);
        let every = if rng.chance(300) { rng.range(1, b.spec.w as u64) as u16 } else { 0 };
        out.push(with(b, "random", format!("r{c}"), |s| {
            s.rules = rules;
            s.peer.timer_ns = tp;
            s.peer.ack_every = every;
        }));
    }
}

pub fn set_repeat(cases: &mut [CaseSpec], repeat: u8) {
    for c in cases.iter_mut() {
        c.repeat = repeat;
        c.label = format!("{}:N{}", c.label, repeat - 1);
    }
}

/// two duplicate/stale ACKs around a timeout-driven retransmission: the first arrives `o1` after burst b while the
/// client's own ACKs are lost, the worker retransmits when its receive times out (off the T grid), the second
/// arrives `o2` after that retransmission (sender role)
pub fn fam_stale_pairs(b: &Base, out: &mut Vec<CaseSpec>) {
    let o1s: [(u64, &str); 4] = [(T / 5, "0.2T"), (T / 2, "0.5T"), (T * 4 / 5, "0.8T"), (T - 1, "T-1ns")];
    let o2s: [(u64, &str); 5] = [(1000, "eps"), (T / 10, "0.1T"), (T * 3 / 10, "0.3T"), (T / 2, "0.5T"), (T * 9 / 10, "0.9T")];
    for burst in 0..b.n_bursts {
        for d in 0..=1i64 {
            for (o1, n1) in o1s {
                for (o2, n2) in o2s {
                    out.push(with(b, "stalepair", format!("burst{burst}:ack-{d}@{n1}+retx:ack-{d}@{n2}"), |s| {
                        s.rules.push(Rule::InjectAfterBurst { burst, offset: o1, stray: Stray::AckRel(-d), suppress: true, suppress_for: 3 * T });
                        s.rules.push(Rule::InjectAfterBurst { burst: burst + 1, offset: o2, stray: Stray::AckRel(-d), suppress: false, suppress_for: 0 });
                        // a third one after the second retransmission
                        s.rules.push(Rule::InjectAfterBurst { burst: burst + 2, offset: o2, stray: Stray::AckRel(-d), suppress: false, suppress_for: 0 });
                    }));
                }
            }
        }
    }
}

/// the peer falls silent at step j; while the worker retries, duplicate/stale ACKs arrive (one after r timeouts, or a
/// volley of six at once); the worker must still give up after a bounded number of timeouts (sender role)
pub fn fam_stale_then_silence(b: &Base, out: &mut Vec<CaseSpec>) {
    for j in 1..=b.peer_outs {
        // the burst that stays unanswered is (roughly) burst j-1 for a lock-step client; cover a few
        for burst in [j.saturating_sub(1), j] {
            for r in 0..7usize {
                out.push(with(b, "stalesilence", format!("silent#{j}:burst{burst}+{r}:one"), |s| {
                    s.peer.silent_from = Some(j);
                    s.rules.push(Rule::InjectAfterBurst { burst: burst + r, offset: 1000, stray: Stray::AckRel(0), suppress: false, suppress_for: 0 });
                }));
            }
            for d in [0i64, 1] {
                out.push(with(b, "stalesilence", format!("silent#{j}:burst{burst}:volley-{d}"), |s| {
                    s.peer.silent_from = Some(j);
                    for k in 0..7u64 {
                        s.rules.push(Rule::InjectAfterBurst { burst, offset: 1000 + k * 1000, stray: Stray::AckRel(-d), suppress: false, suppress_for: 0 });
                    }
                }));
            }
        }
    }
}

/// all triples of faults (drop / dup / reorder) for transfers with few datagrams
pub fn fam_triples(b: &Base, protect_handshake: bool, max_slots: usize, out: &mut Vec<CaseSpec>) {
    let mut slots: Vec<(Dir, usize, &str)> = Vec::new();
    for (dir, cnt, dn) in [(Dir::W2P, b.n_w2p, "w2p"), (Dir::P2W, b.n_p2w, "p2w")] {
        for idx in first_idx(b, dir, protect_handshake)..cnt + 1 {
            slots.push((dir, idx, dn));
        }
    }
    if slots.len() > max_slots {
        return;
    }
    let acts = &ACTS[..3];
    for i in 0..slots.len() {
        for j in i + 1..slots.len() {
            for k in j + 1..slots.len() {
                for (a1, n1) in acts {
                    for (a2, n2) in acts {
                        for (a3, n3) in acts {
                            let (d1, i1, dn1) = slots[i];
                            let (d2, i2, dn2) = slots[j];
                            let (d3, i3, dn3) = slots[k];
                            out.push(with(b, "triple", format!("{dn1}#{i1}:{n1}+{dn2}#{i2}:{n2}+{dn3}#{i3}:{n3}"), |s| {
                                s.rules.push(Rule::Idx { dir: d1, idx: i1, act: *a1 });
                                s.rules.push(Rule::Idx { dir: d2, idx: i2, act: *a2 });
                                s.rules.push(Rule::Idx { dir: d3, idx: i3, act: *a3 });
                            }));
                        }
                    }
                }
            }
        }
    }
}

/// one-way link failure: from the idx-th datagram of a direction on, everything in that direction is lost
/// (the other direction keeps working, so the peer keeps retransmitting into the void)
pub fn fam_blackhole(b: &Base, out: &mut Vec<CaseSpec>) {
    for (dir, cnt, dn) in [(Dir::W2P, b.n_w2p, "w2p"), (Dir::P2W, b.n_p2w, "p2w")] {
        for idx in 0..=cnt {
            for (tp, tn) in [(T, "Tp=T"), (T / 2, "Tp=T/2"), (T + T / 2, "Tp=1.5T")] {
                out.push(with(b, "blackhole", format!("{dn}#{idx}:{tn}"), |s| {
                    s.peer.timer_ns = tp;
                    s.rules.push(Rule::DropFrom { dir, idx });
                }));
            }
        }
    }
}

/// a volley of 6..8 duplicate / stale ACKs in a row while a window is outstanding, after which the client's real
/// ACK arrives: the transfer must neither retransmit on them nor abort (sender role)
pub fn fam_stale_volley(b: &Base, out: &mut Vec<CaseSpec>) {
    for burst in 0..b.n_bursts {
        for d in 0..=1i64 {
            for n in [6u64, 8] {
                for (gap, gn) in [(1000u64, "1us"), (T / 10, "0.1T")] {
                    out.push(with(b, "stalevolley", format!("burst{burst}:{n}xack-{d}:{gn}"), |s| {
                        for k in 0..n {
                            s.rules.push(Rule::InjectAfterBurst { burst, offset: 1000 + k * gap, stray: Stray::AckRel(-d), suppress: k == 0, suppress_for: n * gap + 2000 });
                        }
                    }));
                }
            }
        }
    }
}

/// the upload target already exists (overwrite mode) and is longer / shorter than the upload (receiver role)
pub fn fam_pre_existing(b: &Base, out: &mut Vec<CaseSpec>) {
    for (extra, en) in [(1u64, "+1"), (100, "+100"), (70_000, "+70000")] {
        out.push(with(b, "preexisting", format!("longer{en}"), |s| s.pre_existing = s.len + extra));
    }
    if b.spec.len > 1 {
        out.push(with(b, "preexisting", "shorter".to_string(), |s| s.pre_existing = s.len / 2 + 1));
    }
}

/// ERROR packets with long multi-byte messages at every step (they only survive the receive buffer with blksize >= 512)
pub fn fam_error_texts(b: &Base, out: &mut Vec<CaseSpec>) {
    // every ERROR code 0..7 with a short message, at every point (any block size)
    for j in 0..=b.peer_outs {
        for code in 0..8u8 {
            out.push(with(b, "errorcode", format!("at#{j}:code{code}"), |s| {
                s.peer.error_at = Some(j);
                s.peer.error_text = 100 + code;
            }));
        }
    }
    if b.spec.b < 512 {
        return;
    }
    for j in [0usize, 1, b.peer_outs / 2, b.peer_outs.saturating_sub(1)] {
        for kind in 1..=27u8 {
            out.push(with(b, "errortext", format!("at#{j}:text{kind}"), |s| {
                s.peer.error_at = Some(j);
                s.peer.error_text = kind;
            }));
        }
    }
}

/// k isolated faults: the first transmission of k different datagrams, each in a different window, is lost; every
/// loss is repaired by one timeout, so never more than one receive attempt in a row fails
pub fn fam_isolated(b: &Base, out: &mut Vec<CaseSpec>) {
    fam_isolated_from(b, 0, out)
}

/// `fam_isolated` with the first faulty window at block `skip`+1 (e.g. behind a block-number wrap)
pub fn fam_isolated_from(b: &Base, skip: u64, out: &mut Vec<CaseSpec>) {
    let n = b.spec.nblocks();
    let w = b.spec.w as u64;
    let skip_windows = (skip + w - 1) / w;
    let windows = ((n + w - 1) / w).saturating_sub(skip_windows);
    if windows < 7 {
        return;
    }
    let (ddir, adir) = if b.spec.role == Role::Send { (Dir::W2P, Dir::P2W) } else { (Dir::P2W, Dir::W2P) };
    for k in [6u64, 7, 9] {
        for what in ["data", "ack", "mixed"] {
            if k > windows {
                continue;
            }
            out.push(with(b, "isolated", format!("{k}x{what}{}", if skip > 0 { format!("@{skip}") } else { String::new() }), |s| {
                for i in 0..k {
                    // last block of window i (its ACK) or first block of window i (its DATA)
                    let first = (skip_windows + i) * w + 1;
                    let last = ((skip_windows + i + 1) * w).min(n);
                    let use_data = what == "data" || (what == "mixed" && i % 2 == 0);
                    if use_data {
                        s.rules.push(Rule::DropFirst { dir: ddir, is_data: true, abs: first, count: 1 });
                    } else {
                        s.rules.push(Rule::DropFirst { dir: adir, is_data: false, abs: last, count: 1 });
                    }
                }
            }));
        }
    }
}

/// datagrams the sender cannot use (undecodable, OACK, DATA) at exact virtual-time offsets after every burst, while the
/// client's real ACK is withheld: none of them may trigger a retransmission before the timeout (sender role)
pub fn fam_junk_timing(b: &Base, out: &mut Vec<CaseSpec>) {
    for burst in 0..b.n_bursts {
        for (stray, sn) in [(Stray::Junk, "junk"), (Stray::Oack, "oack"), (Stray::DataRel(1), "data")] {
            for (off, on) in [(1000u64, "eps"), (T / 2, "T/2"), (T - 1, "T-1ns")] {
                out.push(with(b, "junktime", format!("burst{burst}:{sn}@{on}"), |s| {
                    s.rules.push(Rule::InjectAfterBurst { burst, offset: off, stray, suppress: true, suppress_for: 0 });
                }));
            }
            // a short series of them
            out.push(with(b, "junktime", format!("burst{burst}:3x{sn}"), |s| {
                for k in 0..3u64 {
                    s.rules.push(Rule::InjectAfterBurst { burst, offset: T / 10 + k * (T / 10), stray, suppress: k == 0, suppress_for: T / 2 });
                }
            }));
        }
    }
}
