//! Small dependency-free helpers: PRNG, JSON writer, hashing.

use std::fmt::Write as _;

/// splitmix64 step, also used as a keyed mixing function.
pub fn mix64(mut z: u64) -> u64 {
    z = z.wrapping_add(0x9E37_79B9_7F4A_7C15);
    z = (z ^ (z >> 30)).wrapping_mul(0xBF58_476D_1CE4_E5B9);
    z = (z ^ (z >> 27)).wrapping_mul(0x94D0_49BB_1331_11EB);
    z ^ (z >> 31)
}

#[derive(Clone, Debug)]
pub struct Rng(pub u64);

impl Rng {
    pub fn new(seed: u64) -> Rng {
        Rng(mix64(seed ^ 0xD1B5_4A32_D192_ED03))
    }
    pub fn next(&mut self) -> u64 {
        self.0 = self.0.wrapping_add(0x9E37_79B9_7F4A_7C15);
        mix64(self.0)
    }
    /// uniform in 0..n (n > 0)
    pub fn below(&mut self, n: u64) -> u64 {
        self.next() % n
    }
    pub fn range(&mut self, lo: u64, hi_incl: u64) -> u64 {
        lo + self.below(hi_incl - lo + 1)
    }
    pub fn chance(&mut self, permille: u64) -> bool {
        self.below(1000) < permille
    }
    pub fn pick<'a, T>(&mut self, xs: &'a [T]) -> &'a T {
        &xs[self.below(xs.len() as u64) as usize]
    }
    pub fn bytes(&mut self, n: usize) -> Vec<u8> {
        let mut v = Vec::with_capacity(n);
        while v.len() < n {
            let x = self.next().to_le_bytes();
            let take = (n - v.len()).min(8);
            v.extend_from_slice(&x[..take]);
        }
        v
    }
}

/// FNV-1a 64 over bytes; used for trace-shape hashes.
pub fn fnv(data: &[u8]) -> u64 {
    let mut h: u64 = 0xcbf2_9ce4_8422_2325;
    for &b in data {
        h ^= b as u64;
        h = h.wrapping_mul(0x0000_0100_0000_01B3);
    }
    h
}

#[derive(Clone, Debug)]
pub enum Json {
    Null,
    Bool(bool),
    Int(i128),
    Num(f64),
    Str(String),
    Arr(Vec<Json>),
    Obj(Vec<(String, Json)>),
}

impl Json {
    pub fn obj() -> Json {
        Json::Obj(vec![])
    }
    pub fn set(mut self, k: &str, v: Json) -> Json {
        if let Json::Obj(ref mut o) = self {
            o.push((k.to_string(), v));
        }
        self
    }
    pub fn put(&mut self, k: &str, v: Json) {
        if let Json::Obj(ref mut o) = self {
            o.push((k.to_string(), v));
        }
    }
    pub fn s(x: &str) -> Json {
        Json::Str(x.to_string())
    }
    pub fn i<T: Into<i128>>(x: T) -> Json {
        Json::Int(x.into())
    }
    pub fn u(x: usize) -> Json {
        Json::Int(x as i128)
    }
    pub fn render(&self) -> String {
        let mut s = String::new();
        self.write(&mut s);
        s
    }
    fn write(&self, out: &mut String) {
        match self {
            Json::Null => out.push_str("null"),
            Json::Bool(b) => out.push_str(if *b { "true" } else { "false" }),
            Json::Int(i) => {
                let _ = write!(out, "{i}");
            }
            Json::Num(f) => {
                if f.is_finite() {
                    let _ = write!(out, "{f}");
                } else {
                    out.push_str("null");
                }
            }
            Json::Str(s) => {
                out.push('"');
                for c in s.chars() {
                    match c {
                        '"' => out.push_str("\\\""),
                        '\\' => out.push_str("\\\\"),
                        '\n' => out.push_str("\\n"),
                        '\r' => out.push_str("\\r"),
                        '\t' => out.push_str("\\t"),
                        c if (c as u32) < 0x20 => {
                            let _ = write!(out, "\\u{:04x}", c as u32);
                        }
                        c => out.push(c),
                    }
                }
                out.push('"');
            }
            Json::Arr(a) => {
                out.push('[');
                for (i, x) in a.iter().enumerate() {
                    if i > 0 {
                        out.push(',');
                    }
                    x.write(out);
                }
                out.push(']');
            }
            Json::Obj(o) => {
                out.push('{');
                for (i, (k, v)) in o.iter().enumerate() {
                    if i > 0 {
                        out.push(',');
                    }
                    Json::Str(k.clone()).write(out);
                    out.push(':');
                    v.write(out);
                }
                out.push('}');
            }
        }
    }
}

pub fn hex(data: &[u8]) -> String {
    let mut s = String::with_capacity(data.len() * 2);
    for b in data {
        let _ = write!(s, "{b:02x}");
    }
    s
}

/// Shortened printable rendering of a datagram for samples / replays.
pub fn show_bytes(data: &[u8]) -> String {
    if data.len() <= 48 {
        hex(data)
    } else {
        format!("{}..(+{} bytes)", hex(&data[..48]), data.len() - 48)
    }
}
