//! C17 — command-line configuration parsing against a reference interpreter.

use crate::pure::PureReport;
use crate::util::{Json, Rng};
use std::net::IpAddr;
use std::panic::{catch_unwind, AssertUnwindSafe};
use std::path::PathBuf;
use tftpd::{ClientConfig, Config, Mode};

#[derive(Clone, Debug, PartialEq)]
struct RefConfig {
    ip: IpAddr,
    port: u16,
    directory: PathBuf,
    receive: PathBuf,
    send: PathBuf,
    single: bool,
    read_only: bool,
    dup: u8,
    overwrite: bool,
    clean: bool,
}

/// Reference interpreter written from the README / --help text.
fn reference(args: &[String], cwd: &PathBuf) -> Result<RefConfig, String> {
    let mut ip: IpAddr = "127.0.0.1".parse().unwrap();
    let mut port = 69u16;
    let mut directory = cwd.clone();
    let (mut rd, mut sd): (Option<PathBuf>, Option<PathBuf>) = (None, None);
    let (mut single, mut ro, mut dup, mut ow, mut clean) = (false, false, 0u8, false, true);
    let mut i = 0;
    while i < args.len() {
        let a = args[i].as_str();
        let takes_value = matches!(a, "-i" | "--ip-address" | "-p" | "--port" | "-d" | "--directory" | "-rd" | "--receive-directory" | "-sd" | "--send-directory" | "--duplicate-packets");
        if takes_value {
            let Some(v) = args.get(i + 1) else { return Err(format!("{a} misses its value")) };
            i += 2;
            match a {
                "-i" | "--ip-address" => ip = v.parse().map_err(|_| format!("bad ip {v}"))?,
                "-p" | "--port" => port = v.parse().map_err(|_| format!("bad port {v}"))?,
                "--duplicate-packets" => {
                    let n: u64 = v.parse().map_err(|_| format!("bad duplicate-packets {v}"))?;
                    if n >= 255 {
                        return Err(format!("duplicate-packets {n} >= 255"));
                    }
                    dup = n as u8;
                }
                _ => {
                    if !std::path::Path::new(v).exists() {
                        return Err(format!("directory {v} does not exist"));
                    }
                    match a {
                        "-d" | "--directory" => directory = PathBuf::from(v),
                        "-rd" | "--receive-directory" => rd = Some(PathBuf::from(v)),
                        _ => sd = Some(PathBuf::from(v)),
                    }
                }
            }
            continue;
        }
        i += 1;
        match a {
            "-s" | "--single-port" => single = true,
            "-r" | "--read-only" => ro = true,
            "--overwrite" => ow = true,
            "--keep-on-error" => clean = false,
            other => return Err(format!("unknown flag {other}")),
        }
    }
    Ok(RefConfig { ip, port, receive: rd.unwrap_or_else(|| directory.clone()), send: sd.unwrap_or_else(|| directory.clone()), directory, single, read_only: ro, dup, overwrite: ow, clean })
}

fn observe(c: &Config) -> RefConfig {
    RefConfig {
        ip: c.ip_address,
        port: c.port,
        directory: c.directory.clone(),
        receive: c.receive_directory.clone(),
        send: c.send_directory.clone(),
        single: c.single_port,
        read_only: c.read_only,
        dup: c.duplicate_packets,
        overwrite: c.overwrite,
        clean: c.clean_on_error,
    }
}

fn check_server(args: &[String], cwd: &PathBuf, rep: &mut PureReport, family: &str) {
    rep.evaluations += 1;
    let mut full = vec!["tftpd".to_string()];
    full.extend_from_slice(args);
    let got = catch_unwind(AssertUnwindSafe(|| Config::new(full.into_iter())));
    let want = reference(args, cwd);
    let input = || Json::obj().set("family", Json::s(family)).set("args", Json::Arr(args.iter().map(|a| Json::s(a)).collect()));
    match (got, want) {
        (Err(_), _) => rep.violate("C17/server/panic", "Config::new panicked".into(), input()),
        (Ok(Ok(c)), Ok(w)) => {
            let o = observe(&c);
            if o != w {
                let field = if o.receive != w.receive { "receive_directory" } else if o.send != w.send { "send_directory" } else if o.directory != w.directory { "directory" } else if o.port != w.port { "port" } else if o.ip != w.ip { "ip" } else if o.dup != w.dup { "duplicate_packets" } else { "flag" };
                rep.violate(&format!("C17/server/config/{field}"), format!("parsed {:?}, the last-occurrence reading is {:?}", o, w), input());
            } else {
                rep.nontrivial += 1;
                rep.distinct.insert(crate::util::fnv(args.join("\u{1}").as_bytes()));
                rep.class("server-ok");
            }
        }
        (Ok(Err(_)), Err(_)) => {
            rep.nontrivial += 1;
            rep.distinct.insert(crate::util::fnv(args.join("\u{1}").as_bytes()));
            rep.class("server-error-as-documented");
        }
        (Ok(Ok(c)), Err(why)) => rep.violate("C17/server/accepted-invalid", format!("accepted although {why}: {:?}", observe(&c)), input()),
        (Ok(Err(e)), Ok(_)) => rep.violate("C17/server/rejected-valid", format!("rejected a valid vector: {e}"), input()),
    }
    if rep.samples.len() < 3 && rep.evaluations % 5003 == 3 {
        rep.samples.push(input());
    }
}

struct Setting {
    spellings: &'static [&'static str],
    values: Vec<String>, // empty = boolean flag
}

fn permutations(n: usize) -> Vec<Vec<usize>> {
    fn rec(cur: &mut Vec<usize>, used: &mut Vec<bool>, n: usize, out: &mut Vec<Vec<usize>>) {
        if cur.len() == n {
            out.push(cur.clone());
            return;
        }
        for i in 0..n {
            if !used[i] {
                used[i] = true;
                cur.push(i);
                rec(cur, used, n, out);
                cur.pop();
                used[i] = false;
            }
        }
    }
    let mut out = vec![];
    rec(&mut vec![], &mut vec![false; n], n, &mut out);
    out
}

fn subsets(n: usize, max: usize) -> Vec<Vec<usize>> {
    (0u32..(1 << n)).filter(|m| m.count_ones() as usize <= max).map(|m| (0..n).filter(|i| m >> i & 1 == 1).collect()).collect()
}

// ----------------------------------------------------------------- client

#[derive(Clone, Debug, PartialEq)]
struct RefClient {
    ip: IpAddr,
    port: u16,
    blocksize: usize,
    windowsize: u16,
    timeout_s: u64,
    upload: bool,
    receive: PathBuf,
    file: PathBuf,
    clean: bool,
}

fn ref_convert(name: &str) -> PathBuf {
    PathBuf::from(name.trim_start_matches(['/', '\\']).replace('\\', "/"))
}

fn reference_client(args: &[String]) -> Result<RefClient, String> {
    let mut c = RefClient { ip: "127.0.0.1".parse().unwrap(), port: 69, blocksize: 512, windowsize: 1, timeout_s: 5, upload: false, receive: PathBuf::new(), file: PathBuf::new(), clean: true };
    let mut i = 0;
    while i < args.len() {
        let a = args[i].as_str();
        let takes_value = matches!(a, "-i" | "--ip-address" | "-p" | "--port" | "-b" | "--blocksize" | "-w" | "--windowsize" | "-t" | "--timeout" | "-rd" | "--receive-directory");
        if takes_value {
            let Some(v) = args.get(i + 1) else { return Err(format!("{a} misses its value")) };
            i += 2;
            match a {
                "-i" | "--ip-address" => c.ip = v.parse().map_err(|_| format!("bad ip {v}"))?,
                "-p" | "--port" => c.port = v.parse().map_err(|_| format!("bad port {v}"))?,
                "-b" | "--blocksize" => c.blocksize = v.parse().map_err(|_| format!("bad blocksize {v}"))?,
                "-w" | "--windowsize" => c.windowsize = v.parse().map_err(|_| format!("bad windowsize {v}"))?,
                "-t" | "--timeout" => c.timeout_s = v.parse().map_err(|_| format!("bad timeout {v}"))?,
                _ => {
                    if !std::path::Path::new(v).exists() {
                        return Err(format!("directory {v} does not exist"));
                    }
                    c.receive = PathBuf::from(v);
                }
            }
            continue;
        }
        i += 1;
        match a {
            "-u" | "--upload" => c.upload = true,
            "-d" | "--download" => c.upload = false,
            "--keep-on-error" => c.clean = false,
            name => c.file = ref_convert(name),
        }
    }
    Ok(c)
}

fn check_client(args: &[String], rep: &mut PureReport, family: &str) {
    rep.evaluations += 1;
    let got = catch_unwind(AssertUnwindSafe(|| ClientConfig::new(args.to_vec().into_iter())));
    let want = reference_client(args);
    let input = || Json::obj().set("family", Json::s(family)).set("client_args", Json::Arr(args.iter().map(|a| Json::s(a)).collect()));
    match (got, want) {
        (Err(_), _) => rep.violate("C17/client/panic", "ClientConfig::new panicked".into(), input()),
        (Ok(Ok(c)), Ok(w)) => {
            let o = RefClient { ip: c.remote_ip_address, port: c.port, blocksize: c.blocksize, windowsize: c.windowsize, timeout_s: c.timeout.as_secs(), upload: c.mode == Mode::Upload, receive: c.receive_directory.clone(), file: c.file_path.clone(), clean: c.clean_on_error };
            if o != w {
                rep.violate("C17/client/config", format!("parsed {:?}, the last-occurrence reading is {:?}", o, w), input());
            } else {
                rep.nontrivial += 1;
                rep.distinct.insert(crate::util::fnv(args.join("\u{2}").as_bytes()));
                rep.class("client-ok");
            }
        }
        (Ok(Err(_)), Err(_)) => {
            rep.nontrivial += 1;
            rep.distinct.insert(crate::util::fnv(args.join("\u{2}").as_bytes()));
            rep.class("client-error-as-documented");
        }
        (Ok(Ok(_)), Err(why)) => rep.violate("C17/client/accepted-invalid", format!("accepted although {why}"), input()),
        (Ok(Err(e)), Ok(_)) => rep.violate("C17/client/rejected-valid", format!("rejected a valid vector: {e}"), input()),
    }
}

pub fn c17(thorough: bool, seed: u64, _threads: usize) -> Json {
    let mut rep = PureReport::default();
    let base = crate::runner::workdir().join("c17");
    let dirs: Vec<String> = ["A", "B", "C"].iter().map(|d| base.join(d).to_string_lossy().to_string()).collect();
    for d in &dirs {
        std::fs::create_dir_all(d).unwrap();
    }
    let missing = base.join("does-not-exist").to_string_lossy().to_string();
    let cwd = std::env::current_dir().unwrap();
    // an explicit value equal to the default (current directory) must still count as explicit
    let mut dirs = dirs;
    dirs.push(cwd.to_string_lossy().to_string());
    // relative values: a later occurrence must replace an earlier one, not be joined onto it
    let _ = std::fs::create_dir_all("c17rel/inner");
    dirs.push(".".to_string());
    dirs.push("c17rel".to_string());
    dirs.push("c17rel/inner".to_string());
    // existing relative directories whose names look like flags or negative numbers: the token behind a value-taking
    // flag is its value, whatever it looks like
    // ... and names with blanks and tabs: an argument is one value, however it looks
    for odd in ["-pub", "-s", "--overwrite", "-d", "-9", "--", "-", "tftp root", "a b/c d", " lead", "trail ", "tab\there", "-p 6969"] {
        if std::fs::create_dir_all(format!("./{odd}")).is_ok() {
            dirs.push(odd.to_string());
        }
    }
    let s = |v: &[&str]| v.iter().map(|x| x.to_string()).collect::<Vec<_>>();
    let settings: Vec<Setting> = vec![
        Setting { spellings: &["-i", "--ip-address"], values: s(&["127.0.0.1", "0.0.0.0", "::1", "192.168.1.5"]) },
        Setting { spellings: &["-p", "--port"], values: s(&["0", "69", "1234", "65535"]) },
        Setting { spellings: &["-d", "--directory"], values: dirs.clone() },
        Setting { spellings: &["-rd", "--receive-directory"], values: dirs.clone() },
        Setting { spellings: &["-sd", "--send-directory"], values: dirs.clone() },
        Setting { spellings: &["-s", "--single-port"], values: vec![] },
        Setting { spellings: &["-r", "--read-only"], values: vec![] },
        Setting { spellings: &["--duplicate-packets"], values: s(&["0", "1", "254"]) },
        Setting { spellings: &["--overwrite"], values: vec![] },
        Setting { spellings: &["--keep-on-error"], values: vec![] },
    ];
    let mut rng = Rng::new(seed ^ 0xC17);
    let maxperm = if thorough { 7 } else { 5 };
    let emit = |rng: &mut Rng, idx: usize, out: &mut Vec<String>, settings: &[Setting]| {
        let st = &settings[idx];
        out.push(rng.pick(st.spellings).to_string());
        if !st.values.is_empty() {
            out.push(rng.pick(&st.values).clone());
        }
    };
    // (1) every subset, every permutation (size <= maxperm), spellings/values drawn per occurrence
    for sub in subsets(settings.len(), settings.len()) {
        if sub.len() <= maxperm {
            for perm in permutations(sub.len()) {
                let mut args = vec![];
                for &k in &perm {
                    emit(&mut rng, sub[k], &mut args, &settings);
                }
                check_server(&args, &cwd, &mut rep, "subset-permutation");
            }
        } else {
            for _ in 0..20 {
                let mut order = sub.clone();
                for i in (1..order.len()).rev() {
                    order.swap(i, rng.below(i as u64 + 1) as usize);
                }
                let mut args = vec![];
                for &k in &order {
                    emit(&mut rng, k, &mut args, &settings);
                }
                check_server(&args, &cwd, &mut rep, "subset-shuffle");
            }
        }
    }
    // (2) metamorphic: a fixed multiset of occurrences (with repeats), all permutations that keep the
    //     last occurrence of every setting last give the same Config; and all permutations at all agree with the reference
    for round in 0..(if thorough { 400 } else { 60 }) {
        let n = 2 + round % 5;
        let mut occ: Vec<Vec<String>> = vec![];
        for _ in 0..n {
            let mut a = vec![];
            let pick = rng.below(settings.len() as u64) as usize;
            emit(&mut rng, pick, &mut a, &settings);
            occ.push(a);
        }
        // force at least one repeated setting
        let mut again = vec![];
        let first_flag_setting = settings.iter().position(|st| st.spellings.contains(&occ[0][0].as_str())).unwrap();
        emit(&mut rng, first_flag_setting, &mut again, &settings);
        occ.push(again);
        for perm in permutations(occ.len()) {
            let args: Vec<String> = perm.iter().flat_map(|&k| occ[k].clone()).collect();
            check_server(&args, &cwd, &mut rep, "repeated-flags-permutation");
        }
    }
    // (3) each invalid-value class at each position of valid vectors
    let invalid: Vec<Vec<String>> = vec![
        s(&["-i", "300.1.1.1"]), s(&["-i", "abc"]), s(&["--ip-address", ""]), s(&["-p", "65536"]), s(&["-p", "-1"]), s(&["--port", "x"]), s(&["-p", ""]),
        vec!["-d".into(), missing.clone()], vec!["-rd".into(), missing.clone()], vec!["--send-directory".into(), missing.clone()],
        s(&["--duplicate-packets", "255"]), s(&["--duplicate-packets", "256"]), s(&["--duplicate-packets", "-1"]), s(&["--duplicate-packets", "x"]), s(&["--duplicate-packets", "1000"]),
        s(&["--bogus"]), s(&["-x"]), s(&["file.txt"]), s(&["-S"]), s(&["--Overwrite"]), s(&[""]),
    ];
    for round in 0..(if thorough { 300 } else { 40 }) {
        let n = round % 5;
        let mut occ: Vec<Vec<String>> = vec![];
        for _ in 0..n {
            let mut a = vec![];
            let pick = rng.below(settings.len() as u64) as usize;
            emit(&mut rng, pick, &mut a, &settings);
            occ.push(a);
        }
        for bad in &invalid {
            for pos in 0..=occ.len() {
                let mut args: Vec<String> = vec![];
                for (k, o) in occ.iter().enumerate() {
                    if k == pos {
                        args.extend(bad.clone());
                    }
                    args.extend(o.clone());
                }
                if pos == occ.len() {
                    args.extend(bad.clone());
                }
                check_server(&args, &cwd, &mut rep, "invalid-at-position");
            }
        }
        // value-taking flag as the very last word
        for st in settings.iter().filter(|st| !st.values.is_empty()) {
            for sp in st.spellings {
                let mut args: Vec<String> = occ.iter().flatten().cloned().collect();
                args.push(sp.to_string());
                check_server(&args, &cwd, &mut rep, "missing-value");
            }
        }
    }
    // (4) defaults
    check_server(&[], &cwd, &mut rep, "defaults");

    // ---- client flag set
    let csettings: Vec<Setting> = vec![
        Setting { spellings: &["-i", "--ip-address"], values: s(&["127.0.0.1", "::1", "10.0.0.7"]) },
        Setting { spellings: &["-p", "--port"], values: s(&["69", "1", "65535"]) },
        Setting { spellings: &["-b", "--blocksize"], values: s(&["8", "512", "1428", "65464"]) },
        Setting { spellings: &["-w", "--windowsize"], values: s(&["1", "4", "65535"]) },
        Setting { spellings: &["-t", "--timeout"], values: s(&["1", "5", "255"]) },
        Setting { spellings: &["-rd", "--receive-directory"], values: dirs.clone() },
        Setting { spellings: &["-u", "--upload", "-d", "--download"], values: vec![] },
        Setting { spellings: &["--keep-on-error"], values: vec![] },
        Setting { spellings: &["file.bin", "dir/file.bin", "/abs/file.bin", "\\win\\file.bin", "a\\b/c.txt"], values: vec![] },
    ];
    let cmax = if thorough { 7 } else { 5 };
    for sub in subsets(csettings.len(), csettings.len()) {
        if sub.len() <= cmax {
            for perm in permutations(sub.len()) {
                let mut args = vec![];
                for &k in &perm {
                    emit(&mut rng, sub[k], &mut args, &csettings);
                }
                check_client(&args, &mut rep, "client-subset-permutation");
            }
        } else {
            for _ in 0..20 {
                let mut order = sub.clone();
                for i in (1..order.len()).rev() {
                    order.swap(i, rng.below(i as u64 + 1) as usize);
                }
                let mut args = vec![];
                for &k in &order {
                    emit(&mut rng, k, &mut args, &csettings);
                }
                check_client(&args, &mut rep, "client-subset-shuffle");
            }
        }
    }
    // repeated client flags: every permutation of seeded multisets with at least one repeated setting
    for round in 0..(if thorough { 600 } else { 120 }) {
        let n = 1 + round % 4;
        let mut occ: Vec<Vec<String>> = vec![];
        for _ in 0..n {
            let mut a = vec![];
            let pick = rng.below(csettings.len() as u64) as usize;
            emit(&mut rng, pick, &mut a, &csettings);
            occ.push(a);
        }
        let rep_idx = csettings.iter().position(|st| st.spellings.contains(&occ[0][0].as_str())).unwrap();
        for _ in 0..(1 + round % 2) {
            let mut again = vec![];
            emit(&mut rng, rep_idx, &mut again, &csettings);
            occ.push(again);
        }
        for perm in permutations(occ.len()) {
            let args: Vec<String> = perm.iter().flat_map(|&k| occ[k].clone()).collect();
            check_client(&args, &mut rep, "client-repeated-flags-permutation");
        }
    }
    let cinvalid: Vec<Vec<String>> = vec![
        s(&["-i", "nope"]), s(&["-p", "70000"]), s(&["-b", "x"]), s(&["-b", "-8"]), s(&["-w", "65536"]), s(&["-w", "-1"]), s(&["-t", "abc"]), vec!["-rd".into(), missing.clone()],
    ];
    for round in 0..(if thorough { 200 } else { 30 }) {
        let n = round % 4;
        let mut occ: Vec<Vec<String>> = vec![];
        for _ in 0..n {
            let mut a = vec![];
            let pick = rng.below(csettings.len() as u64) as usize;
            emit(&mut rng, pick, &mut a, &csettings);
            occ.push(a);
        }
        for bad in &cinvalid {
            for pos in 0..=occ.len() {
                let mut args: Vec<String> = vec![];
                for (k, o) in occ.iter().enumerate() {
                    if k == pos {
                        args.extend(bad.clone());
                    }
                    args.extend(o.clone());
                }
                if pos == occ.len() {
                    args.extend(bad.clone());
                }
                check_client(&args, &mut rep, "client-invalid-at-position");
            }
        }
        for st in csettings.iter().filter(|st| !st.values.is_empty()) {
            let mut args: Vec<String> = occ.iter().flatten().cloned().collect();
            args.push(st.spellings[0].to_string());
            check_client(&args, &mut rep, "client-missing-value");
        }
    }
    let _ = std::fs::remove_dir_all(crate::runner::workdir());
    rep.to_json(
        "C17",
        "Config::new / ClientConfig::new are compared field by field with a reference interpreter written from the README/--help text: each setting takes the value of its last occurrence, defaults 127.0.0.1:69 / cwd / writable / multi-port / no overwrite / clean-on-error, receive and send directory fall back to -d exactly when not given; errors for unknown flag, flag without value, unparsable ip/port/number, non-existent directory, duplicate-packets >= 255 (server). Since the reference is order-independent by construction, agreement on all permutations is order independence. non-trivial = vectors that parsed to the reference Config or failed as documented; distinct = distinct argument vectors.",
        &format!("exhaustive: all 1024 subsets of the 10 server settings, all permutations of every subset of size <= {maxperm}; all 512 subsets of the 9 client settings with all permutations for size <= {cmax}; spellings and values are drawn per occurrence (seeded). Repeated-flag multisets: all permutations of seeded multisets of 3..7 occurrences. 21 invalid-value classes at every position of seeded valid vectors. -h/--help excluded (process::exit)."),
    )
}
