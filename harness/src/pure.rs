//! E3 — in-process harnesses for the pure public API (codec, window, config).

use crate::util::{show_bytes, Json, Rng};
use crate::wire::{self, Demand, RPacket};
use std::collections::BTreeMap;
use std::panic::{catch_unwind, AssertUnwindSafe};
use std::sync::atomic::{AtomicUsize, Ordering};
use std::sync::{Arc, Mutex};
use tftpd::{ErrorCode, Opcode, OptionType, Packet, TransferOption};

#[derive(Default)]
pub struct PureReport {
    pub evaluations: u64,
    pub nontrivial: u64,
    pub classes: BTreeMap<String, u64>,
    pub violations: Vec<Json>,
    pub violation_count: u64,
    pub samples: Vec<Json>,
    pub distinct: std::collections::HashSet<u64>,
}

impl PureReport {
    pub fn class(&mut self, c: &str) {
        *self.classes.entry(c.to_string()).or_insert(0) += 1;
    }
    pub fn violate(&mut self, sig: &str, detail: String, input: Json) {
        self.violation_count += 1;
        if self.violations.len() < 30 && self.violations.iter().filter(|v| matches!(v, Json::Obj(o) if o.iter().any(|(k, x)| k == "signature" && matches!(x, Json::Str(s) if s == sig)))).count() < 3 {
            self.violations.push(Json::obj().set("signature", Json::s(sig)).set("detail", Json::s(&detail)).set("input", input));
        }
    }
    pub fn merge(&mut self, o: PureReport) {
        self.evaluations += o.evaluations;
        self.nontrivial += o.nontrivial;
        for (k, v) in o.classes {
            *self.classes.entry(k).or_insert(0) += v;
        }
        self.violation_count += o.violation_count;
        self.violations.extend(o.violations);
        self.violations.truncate(40);
        self.samples.extend(o.samples);
        self.samples.truncate(8);
        self.distinct.extend(o.distinct);
    }
    pub fn to_json(&self, id: &str, rule: &str, exhaustive_note: &str) -> Json {
        Json::obj()
            .set("engine", Json::s("pure"))
            .set("property", Json::s(id))
            .set("evaluations", Json::i(self.evaluations as i64))
            .set("nontrivial", Json::i(self.nontrivial as i64))
            .set("distinct_nontrivial", Json::u(self.distinct.len()))
            .set("event_classes_seen", Json::Obj(self.classes.iter().map(|(k, v)| (k.clone(), Json::i(*v as i64))).collect()))
            .set("violation_count", Json::i(self.violation_count as i64))
            .set("violations", Json::Arr(self.violations.clone()))
            .set("samples", Json::Arr(self.samples.clone()))
            .set("rule_text", Json::s(rule))
            .set("exhaustive_note", Json::s(exhaustive_note))
    }
}

/// Runs `work(shard, nshards, &mut report)` on `threads` threads and merges.
fn parallel(threads: usize, work: Arc<dyn Fn(usize, usize, &mut PureReport) + Send + Sync>) -> PureReport {
    let total = Arc::new(Mutex::new(PureReport::default()));
    let next = Arc::new(AtomicUsize::new(0));
    let nshards = threads * 8;
    let mut hs = vec![];
    for _ in 0..threads {
        let (total, next, work) = (total.clone(), next.clone(), work.clone());
        hs.push(std::thread::spawn(move || {
            let mut rep = PureReport::default();
            loop {
                let s = next.fetch_add(1, Ordering::SeqCst);
                if s >= nshards {
                    break;
                }
                work(s, nshards, &mut rep);
            }
            total.lock().unwrap().merge(rep);
        }));
    }
    for h in hs {
        let _ = h.join();
    }
    let mut t = total.lock().unwrap();
    std::mem::take(&mut *t)
}

pub fn run(id: &str, tier: &str, seed: u64, threads: usize) -> Json {
    // panics are expected to be *caught* here; keep stderr quiet
    std::panic::set_hook(Box::new(|_| {}));
    let thorough = tier == "thorough";
    let miri = tier == "miri";
    match id {
        "C10" => c10(thorough, miri, seed, threads),
        "C11" => c11(thorough, miri, seed, threads),
        "C17" => crate::pure_config::c17(thorough, seed, threads),
        "C18" => crate::pure_window::c18(thorough, miri, seed, threads),
        _ => Json::obj().set("error", Json::s("unknown property")),
    }
}

// ---------------------------------------------------------------- C10 / C11

fn opt_name(o: &OptionType) -> &'static str {
    match o {
        OptionType::BlockSize => "blksize",
        OptionType::TransferSize => "tsize",
        OptionType::Timeout => "timeout",
        OptionType::Windowsize => "windowsize",
    }
}

/// Converts a decoded packet of the crate under test into the reference representation.
pub fn to_ref(p: &Packet) -> RPacket {
    let opts = |v: &Vec<TransferOption>| v.iter().map(|o| (opt_name(&o.option).to_string(), o.value as u64)).collect::<Vec<_>>();
    match p {
        Packet::Rrq { filename, mode, options } => RPacket::Rrq { filename: filename.clone().into_bytes(), mode: mode.clone().into_bytes(), options: opts(options) },
        Packet::Wrq { filename, mode, options } => RPacket::Wrq { filename: filename.clone().into_bytes(), mode: mode.clone().into_bytes(), options: opts(options) },
        Packet::Data { block_num, data } => RPacket::Data { block: *block_num, data: data.clone() },
        Packet::Ack(k) => RPacket::Ack(*k),
        Packet::Error { code, msg } => RPacket::Error { code: *code as u16, msg: msg.clone().into_bytes() },
        Packet::Oack(o) => RPacket::Oack(opts(o)),
    }
}

/// The C10 oracle for one datagram.
fn judge_datagram(buf: &[u8], rep: &mut PureReport, origin: &str) {
    rep.evaluations += 1;
    let res = catch_unwind(AssertUnwindSafe(|| Packet::deserialize(buf)));
    let dem = wire::demand(buf);
    let input = || Json::obj().set("origin", Json::s(origin)).set("len", Json::u(buf.len())).set("bytes", Json::s(&show_bytes(buf)));
    let r = match res {
        Err(_) => {
            rep.violate("C10/panic", format!("Packet::deserialize panicked on a {}-byte datagram", buf.len()), input());
            return;
        }
        Ok(r) => r,
    };
    match (&dem, &r) {
        (Demand::MustReject(why), Ok(p)) => {
            rep.class("must-reject");
            rep.violate(&format!("C10/accepted/{}", why), format!("accepted as {:?} although: {}", to_ref(p), why), input());
        }
        (Demand::MustReject(why), Err(_)) => {
            rep.class("must-reject");
            rep.nontrivial += 1;
            rep.distinct.insert(crate::util::fnv(why.as_bytes()) ^ buf.len() as u64 ^ ((buf.get(1).copied().unwrap_or(0) as u64) << 32));
        }
        (Demand::WellFormed(want), Ok(p)) => {
            rep.class("well-formed-accepted");
            if to_ref(p) != *want {
                rep.violate("C10/misdecoded", format!("decoded {:?}, the RFC reading is {:?}", to_ref(p), want), input());
            }
        }
        (Demand::WellFormed(_), Err(_)) => rep.class("well-formed-rejected(allowed)"),
        (Demand::Open(_), Ok(_)) => rep.class("open-accepted"),
        (Demand::Open(_), Err(_)) => rep.class("open-rejected"),
    }
    if let Ok(p) = &r {
        // stability: re-encode, decode again
        let again = catch_unwind(AssertUnwindSafe(|| p.serialize().map(|b| (Packet::deserialize(&b), b))));
        match again {
            Err(_) => rep.violate("C10/panic-reencode", "serialize/deserialize of an accepted packet panicked".into(), input()),
            Ok(Err(e)) => rep.violate("C10/unstable", format!("accepted packet does not serialize: {e}"), input()),
            Ok(Ok((Err(e), b))) => rep.violate("C10/unstable", format!("re-encoding {} is rejected: {e}", show_bytes(&b)), input()),
            Ok(Ok((Ok(p2), _))) => {
                rep.nontrivial += 1;
                rep.distinct.insert(crate::util::fnv(&buf[..buf.len().min(24)]) ^ (buf.len() as u64) << 48);
                if p2 != *p {
                    rep.violate("C10/unstable", format!("decode(encode(p)) = {:?} differs from p = {:?}", to_ref(&p2), to_ref(p)), input());
                }
            }
        }
    }
    if rep.samples.len() < 4 && rep.evaluations % 9973 == 7 {
        rep.samples.push(input().set("demand", Json::s(&format!("{:?}", dem))).set("decoded", Json::s(&match &r {
            Ok(p) => format!("{:?}", to_ref(p)),
            Err(e) => format!("Err({e})"),
        })));
    }
}

const ALPHABET: [u8; 16] = [0, 1, 2, 3, 4, 5, 6, 7, b'0', b'9', b'a', b'b', b'B', 0x80, 0xC3, 0xFF];

fn grammar_packets(rng: &mut Rng) -> Vec<Vec<u8>> {
    // valid packets of all six kinds, option names in several spellings
    // incl. characters whose lower-case form has a different UTF-8 length (U+0130, U+023A, U+023E longer; U+212A shorter)
    let names = ["blksize", "BLKSIZE", "BlkSize", "tsize", "TSIZE", "timeout", "TimeOut", "windowsize", "WINDOWSIZE", "WindowSize", "unknown", "x", "",
        "\u{130}", "blks\u{130}ze", "\u{130}\u{130}\u{130}", "\u{23A}\u{23E}", "\u{212A}", "t\u{212A}size", "\u{1C5}", "\u{df}"];
    let values = ["0", "1", "8", "512", "65464", "65465", "65535", "65536", "4294967296", "18446744073709551615", "18446744073709551616", "-1", "+5", "007", "1e3", "", "abc", "9 ", "０"];
    let mut v = Vec::new();
    for op in [wire::OP_RRQ, wire::OP_WRQ] {
        for fname in ["a", "", "dir/file.bin", "ü.txt"] {
            let mut base = Vec::new();
            base.extend_from_slice(&op.to_be_bytes());
            base.extend_from_slice(fname.as_bytes());
            base.push(0);
            base.extend_from_slice(b"octet\0");
            v.push(base.clone());
            for n in names {
                for val in values {
                    let mut p = base.clone();
                    p.extend_from_slice(n.as_bytes());
                    p.push(0);
                    p.extend_from_slice(val.as_bytes());
                    p.push(0);
                    v.push(p.clone());
                    // a second option behind it
                    let n2 = *rng.pick(&names);
                    let v2 = *rng.pick(&values);
                    p.extend_from_slice(n2.as_bytes());
                    p.push(0);
                    p.extend_from_slice(v2.as_bytes());
                    p.push(0);
                    v.push(p);
                }
            }
        }
    }
    for n in names {
        for val in values {
            let mut p = wire::OP_OACK.to_be_bytes().to_vec();
            p.extend_from_slice(n.as_bytes());
            p.push(0);
            p.extend_from_slice(val.as_bytes());
            p.push(0);
            v.push(p);
        }
    }
    v.push(wire::enc_oack(&[]));
    // long valid-UTF-8 strings with a multi-byte character at every alignment around typical size limits,
    // in every string field of every packet kind
    for ch in ["\u{e9}", "\u{6587}", "\u{1F600}"] {
        for pre in (0..24).chain(120..132).chain(248..262).chain(500..516) {
            let text = format!("{}{}{}", "a".repeat(pre), ch, "b".repeat(3));
            let long = format!("{}{}", "a".repeat(pre % 4), ch.repeat(130));
            for t in [&text, &long] {
                v.push(wire::enc_error(1, t.as_bytes()));
                v.push(wire::enc_request(wire::OP_RRQ, t.as_bytes(), b"octet", &[]));
                v.push(wire::enc_request(wire::OP_WRQ, b"f", t.as_bytes(), &[]));
                let mut p = wire::enc_request(wire::OP_RRQ, b"f", b"octet", &[]);
                p.extend_from_slice(t.as_bytes());
                p.push(0);
                p.extend_from_slice(b"1\0");
                v.push(p);
            }
        }
    }
    for mode in ["OCTET", "Octet", "NetAscii", "MAIL", "mail", "binary"] {
        v.push(wire::enc_request(wire::OP_RRQ, b"f", mode.as_bytes(), &[]));
        v.push(wire::enc_request(wire::OP_WRQ, b"k:fw.bin", mode.as_bytes(), &[]));
    }
    // ERROR messages that are not valid UTF-8, terminated, with more bytes behind the terminator
    for bad in [&b"caf\xe9"[..], b"\xff", b"a\xc3", b"\xf0\x9f\x98", b"ok"] {
        for tail in [&b""[..], b"x", b"\0", b"\0y", b"y\0", b"\0\0z\0"] {
            for code in [0u16, 3, 7] {
                let mut p = wire::enc_error(code, bad);
                p.extend_from_slice(tail);
                v.push(p);
            }
        }
    }
    // long option lists: k well-formed pairs (unknown, empty-named or recognised) and then a well-formed or malformed tail -
    // a parser that stops counting after some number of pairs must still validate and honour the rest
    for op in [wire::OP_RRQ, wire::OP_WRQ, wire::OP_OACK] {
        for k in (0..=20).chain([24, 31, 32, 33, 40, 63, 64, 65, 100]) {
            let mut base = if op == wire::OP_OACK { op.to_be_bytes().to_vec() } else { wire::enc_request(op, b"f", b"octet", &[]) };
            for j in 0..k {
                match j % 3 {
                    0 => base.extend_from_slice(format!("u{j}\x00{j}\x00").as_bytes()),
                    1 => base.extend_from_slice(b"x\0\0"),
                    _ => base.extend_from_slice(b"tsize\x000\0"),
                }
            }
            for tail in [&b""[..], b"blksize\x001024\0", b"blksize\0abc\0", b"windowsize\x007", b"blksize\0", b"junk", b"timeout\0\xff\xfe\0", b"\xc3\x28\0v\0", b"windowsize\x0065536\0", b"name-without-value\0"] {
                let mut p = base.clone();
                p.extend_from_slice(tail);
                v.push(p);
            }
        }
    }
    // text that a "harmless" normalisation (trimming, line-break / separator clean-up, BOM removal) would touch: one and
    // two decorations before, behind and around a core, in every string field - a normalisation that is not idempotent
    // breaks decode(encode(decode(x))) == decode(x)
    let deco = ["\n", "\r\n", "\r", " ", "\t", "/", "\\", ".", "\u{feff}", "\u{a0}", "\"", "\u{fffd}", "\u{1}", "\u{7f}", "\u{2028}"];
    for core in ["disk full", ""] {
        for d1 in deco {
            for d2 in deco {
                for t in [format!("{core}{d1}{d2}"), format!("{d1}{d2}{core}"), format!("{d1}{core}{d2}"), format!("{core}{d1}{d2}{d1}")] {
                    v.push(wire::enc_error(3, t.as_bytes()));
                    v.push(wire::enc_request(wire::OP_RRQ, t.as_bytes(), b"octet", &[]));
                    v.push(wire::enc_request(wire::OP_WRQ, b"f", t.as_bytes(), &[]));
                    let mut p = wire::enc_request(wire::OP_RRQ, b"f", b"octet", &[]);
                    p.extend_from_slice(t.as_bytes());
                    p.extend_from_slice(b"\x001\0");
                    v.push(p);
                    let mut p = wire::OP_OACK.to_be_bytes().to_vec();
                    p.extend_from_slice(b"unknown\0");
                    p.extend_from_slice(t.as_bytes());
                    p.push(0);
                    v.push(p);
                }
            }
        }
    }
    for blk in [0u16, 1, 255, 256, 65535] {
        v.push(wire::enc_ack(blk));
        for len in [0usize, 1, 8, 512] {
            v.push(wire::enc_data(blk, &rng.bytes(len)));
        }
    }
    for code in 0..10u16 {
        v.push(wire::enc_error(code, b"message"));
        v.push(wire::enc_error(code, b""));
        let mut p = wire::enc_error(code, b"no terminator");
        p.pop();
        v.push(p);
    }
    v
}

fn c10(thorough: bool, miri: bool, seed: u64, threads: usize) -> Json {
    let max_tail = if miri { 1 } else if thorough { 6 } else { 5 };
    let nrandom: u64 = if miri { 128 } else if thorough { 10_000_000 } else { 2_000_000 };
    let nprefix: usize = if miri { 12 } else { 65536 };
    let bytes_upto: usize = if miri { 3 } else { 256 };
    let grammar_stride: usize = if miri { 389 } else { 1 };
    let mut grng = Rng::new(seed ^ 0x6A);
    let packets_shared: Arc<Vec<Vec<u8>>> = Arc::new(grammar_packets(&mut grng));
    let work = Arc::new(move |shard: usize, nshards: usize, rep: &mut PureReport| {
        // (1) every opcode word 0..7 x all tails of length <= max_tail over the 16-symbol alphabet
        let mut counter = 0usize;
        for op in 0u16..8 {
            for len in 0..=max_tail {
                let total = 16usize.pow(len as u32);
                for code in 0..total {
                    counter += 1;
                    if counter % nshards != shard {
                        continue;
                    }
                    let mut buf = Vec::with_capacity(2 + len);
                    buf.extend_from_slice(&op.to_be_bytes());
                    let mut c = code;
                    for _ in 0..len {
                        buf.push(ALPHABET[c % 16]);
                        c /= 16;
                    }
                    judge_datagram(&buf, rep, "alphabet-exhaustive");
                }
            }
        }
        // (2) all byte strings of length 0..3 over all 256 values
        if shard == 0 {
            judge_datagram(&[], rep, "bytes-exhaustive");
        }
        for a in 0..bytes_upto {
            if a % nshards != shard {
                continue;
            }
            judge_datagram(&[a as u8], rep, "bytes-exhaustive");
            for b in 0..bytes_upto {
                judge_datagram(&[a as u8, b as u8], rep, "bytes-exhaustive");
                if a < 8 {
                    for c in 0..bytes_upto {
                        judge_datagram(&[a as u8, b as u8, c as u8], rep, "bytes-exhaustive");
                    }
                }
            }
        }
        // (3) all 65536 two-byte prefixes x 40 tails
        let mut rng = Rng::new(seed ^ 0x7A11);
        let mut tails: Vec<Vec<u8>> = vec![vec![], vec![0], vec![0, 0], vec![0, 1], vec![0, 1, 0], b"a\0octet\0".to_vec(), b"a\0octet\0blksize\0512\0".to_vec(), b"blksize\0x\0".to_vec(), vec![0xff; 3]];
        while tails.len() < 40 {
            let n = rng.range(1, 12) as usize;
            tails.push((0..n).map(|_| *rng.pick(&ALPHABET)).collect());
        }
        for pre in 0..nprefix {
            if pre % nshards != shard {
                continue;
            }
            for t in &tails {
                let mut buf = (pre as u16).to_be_bytes().to_vec();
                buf.extend_from_slice(t);
                judge_datagram(&buf, rep, "prefix-x-tails");
            }
        }
        // (4) grammar packets: truncated at every length, each NUL removed in turn, each byte flipped
        let packets: &Vec<Vec<u8>> = &packets_shared;
        for (i, p) in packets.iter().enumerate() {
            if i % nshards != shard || i % grammar_stride != 0 {
                continue;
            }
            judge_datagram(p, rep, "grammar");
            let step = if p.len() > 80 { 7 } else { 1 };
            for cut in (0..p.len()).step_by(step) {
                judge_datagram(&p[..cut], rep, "grammar-truncated");
            }
            for (k, &byte) in p.iter().enumerate() {
                if byte == 0 && k >= 2 {
                    let mut q = p.clone();
                    q.remove(k);
                    judge_datagram(&q, rep, "grammar-nul-removed");
                    let mut q = p.clone();
                    q.insert(k, 0);
                    judge_datagram(&q, rep, "grammar-nul-doubled");
                }
            }
            if p.len() <= 64 {
                for k in 0..p.len() {
                    for x in [0x00u8, 0x01, 0x80, 0xff] {
                        let mut q = p.clone();
                        q[k] ^= x.max(1);
                        judge_datagram(&q, rep, "grammar-byteflip");
                    }
                }
            }
        }
        // (5) seeded random and mutated datagrams up to 64 KiB
        let mut r = Rng::new(seed.wrapping_mul(31).wrapping_add(shard as u64));
        let per = nrandom / nshards as u64;
        for i in 0..per {
            let buf = match i % 5 {
                0 => {
                    let n = r.range(0, 40) as usize;
                    r.bytes(n)
                }
                1 => {
                    let n = if r.chance(20) { r.range(1000, 65535) as usize } else { r.range(0, 600) as usize };
                    let mut b = r.bytes(n);
                    if b.len() >= 2 {
                        b[0] = 0;
                        b[1] = r.below(8) as u8;
                    }
                    b
                }
                2 => {
                    // alphabet soup behind a valid opcode
                    let n = r.range(0, 30) as usize;
                    let mut b = vec![0, r.range(1, 6) as u8];
                    for _ in 0..n {
                        b.push(*r.pick(&ALPHABET));
                    }
                    b
                }
                _ => {
                    // mutate a grammar packet
                    let mut b = r.pick(packets).clone();
                    for _ in 0..r.range(1, 3) {
                        if b.is_empty() {
                            break;
                        }
                        let k = r.below(b.len() as u64) as usize;
                        match r.below(4) {
                            0 => b[k] = r.below(256) as u8,
                            1 => {
                                b.remove(k);
                            }
                            2 => b.insert(k, *r.pick(&ALPHABET)),
                            _ => b.truncate(k),
                        }
                    }
                    b
                }
            };
            judge_datagram(&buf, rep, "random");
        }
    });
    let rep = parallel(threads, work);
    rep.to_json(
        "C10",
        "for every datagram: Packet::deserialize must not unwind (catch_unwind); datagrams the statement lists (shorter than the fixed header, unknown opcode / error code, missing NUL terminator, non-numeric value of a recognised option) must be rejected (reference classifier written from RFC 1350/2347); a datagram that is well-formed by the RFC grammar may be rejected but if accepted must decode to the RFC reading; every accepted packet p satisfies deserialize(serialize(p)) == p. non-trivial = datagram is in the must-reject class and was rejected, or was accepted and round-tripped; distinct = distinct (reject reason, length, opcode) resp. distinct 24-byte prefix+length.",
        &format!("exhaustive: opcode words 0..7 x all tails of length <= {max_tail} over the 16-symbol alphabet {{00..07,'0','9','a','b','B',80,C3,FF}}; all byte strings of length 0..2 and all 3-byte strings with first byte < 8; all 65536 two-byte prefixes x 40 tails; every grammar packet truncated at every length, each NUL removed/doubled, each byte flipped 4 ways. Random/mutated datagrams up to 64 KiB are seeded samples."),
    )
}

fn gen_packet(r: &mut Rng) -> (Packet, RPacket) {
    let strings: [&str; 16] = ["", "a", "octet", "netascii", "dir/sub/file.bin", "C:\\x\\y", "ünïcödé-文件", "with space", "%s%n",
        // the RFC 1350 modes in other spellings: a decoder that canonicalises them does not return what was sent
        "OCTET", "Octet", "NetAscii", "NETASCII", "mail", "MAIL", "k:fw.bin"];
    let long: String = "L".repeat(520);
    let mut pick_s = |r: &mut Rng| -> String {
        if r.chance(60) {
            long.clone()
        } else if r.chance(60) {
            // long string with multi-byte characters at a random alignment
            let ch = *r.pick(&["\u{e9}", "\u{6587}", "\u{1F600}"]);
            format!("{}{}", "a".repeat(r.below(8) as usize), ch.repeat(r.range(40, 260) as usize))
        } else if r.chance(120) {
            // characters that lossy conversions, sanitisers and trimmers treat specially, anywhere in the string
            let special = ['\u{fffd}', '\u{feff}', '\u{1}', '\u{7f}', '\u{80}', '\u{a0}', '\u{2028}', '\u{fffe}', '\u{ffff}', '\u{10ffff}', '\u{d7ff}', '\u{e000}', '\n', '\r', '\t', ' ', '"', '\\', '/'];
            let n = r.range(1, 12);
            (0..n).map(|_| if r.chance(500) { *r.pick(&special) } else { (b'a' + r.below(26) as u8) as char }).collect()
        } else if r.chance(150) {
            // random printable / multi-byte string without NUL
            let n = r.range(0, 20);
            (0..n).map(|_| char::from_u32(r.range(1, 0x24F) as u32).unwrap_or('x')).collect()
        } else {
            r.pick(&strings).to_string()
        }
    };
    let kinds = [OptionType::BlockSize, OptionType::TransferSize, OptionType::Timeout, OptionType::Windowsize];
    // values around every power of ten and of two (digit-count and width boundaries), plus a few ordinary ones
    let mut vals: Vec<u64> = vec![0, 1, 9, 10, 65464, 1 << 32, 1 << 63, u64::MAX, 12345];
    for k in 1..=19u32 {
        let p = 10u64.pow(k);
        for d in [-22i64, -2, -1, 0, 1] {
            vals.push(p.wrapping_add(d as u64));
        }
    }
    for k in 1..64u32 {
        let p = 1u64 << k;
        vals.extend([p - 1, p, p + 1]);
    }
    let gen_opts = |r: &mut Rng| -> Vec<TransferOption> {
        let n = if r.chance(40) { r.range(15, 70) } else { r.range(0, 6) };
        (0..n)
            .map(|_| TransferOption { option: *r.pick(&kinds), value: if r.chance(200) { r.next() as usize } else { *r.pick(&vals) as usize } })
            .collect()
    };
    let blocks: [u16; 5] = [0, 1, 255, 256, 65535];
    let p = match r.below(6) {
        0 => Packet::Rrq { filename: pick_s(r), mode: pick_s(r), options: gen_opts(r) },
        1 => Packet::Wrq { filename: pick_s(r), mode: pick_s(r), options: gen_opts(r) },
        2 => {
            let len = *r.pick(&[0usize, 1, 7, 8, 511, 512, 513, 1428, 65464]);
            let len = if r.chance(300) { r.range(0, 2000) as usize } else { len };
            Packet::Data { block_num: if r.chance(500) { *r.pick(&blocks) } else { r.below(65536) as u16 }, data: r.bytes(len) }
        }
        3 => Packet::Ack(if r.chance(500) { *r.pick(&blocks) } else { r.below(65536) as u16 }),
        4 => Packet::Error { code: ErrorCode::from_u16(r.below(8) as u16).unwrap(), msg: pick_s(r) },
        _ => Packet::Oack(gen_opts(r)),
    };
    let rp = to_ref(&p);
    (p, rp)
}

fn c11(thorough: bool, miri: bool, seed: u64, threads: usize) -> Json {
    let n: u64 = if miri { 240 } else if thorough { 10_000_000 } else { 200_000 };
    let enum_upto: u16 = if miri { 40 } else { 65535 };
    let work = Arc::new(move |shard: usize, nshards: usize, rep: &mut PureReport| {
        if shard == 0 {
            // enum conversions, exhaustive over u16
            for v in 0..=enum_upto {
                rep.evaluations += 2;
                let o = catch_unwind(|| Opcode::from_u16(v));
                match o {
                    Err(_) => rep.violate("C11/opcode-panic", format!("Opcode::from_u16({v}) panicked"), Json::i(v)),
                    Ok(Ok(op)) => {
                        if !(1..=6).contains(&v) {
                            rep.violate("C11/opcode-accepted", format!("Opcode::from_u16({v}) accepted"), Json::i(v));
                        } else if op.as_bytes() != v.to_be_bytes() {
                            rep.violate("C11/opcode-bytes", format!("Opcode {v} encodes differently"), Json::i(v));
                        }
                        rep.nontrivial += 1;
                        rep.distinct.insert(0x0C0DE000 + v as u64);
                    }
                    Ok(Err(_)) => {
                        if (1..=6).contains(&v) {
                            rep.violate("C11/opcode-rejected", format!("Opcode::from_u16({v}) rejected"), Json::i(v));
                        }
                    }
                }
                match catch_unwind(|| ErrorCode::from_u16(v)) {
                    Err(_) => rep.violate("C11/errcode-panic", format!("ErrorCode::from_u16({v}) panicked"), Json::i(v)),
                    Ok(Ok(c)) => {
                        if v > 7 {
                            rep.violate("C11/errcode-accepted", format!("ErrorCode::from_u16({v}) accepted"), Json::i(v));
                        } else if c.as_bytes() != v.to_be_bytes() {
                            rep.violate("C11/errcode-bytes", format!("ErrorCode {v} encodes differently"), Json::i(v));
                        }
                        rep.nontrivial += 1;
                        rep.distinct.insert(0x0E44000 + v as u64);
                    }
                    Ok(Err(_)) => {
                        if v <= 7 {
                            rep.violate("C11/errcode-rejected", format!("ErrorCode::from_u16({v}) rejected"), Json::i(v));
                        }
                    }
                }
            }
            rep.class("u16-exhaustive-enum-conversions");
        }
        let mut r = Rng::new(seed.wrapping_mul(131).wrapping_add(shard as u64));
        for _ in 0..n / nshards as u64 {
            let (p, rp) = gen_packet(&mut r);
            rep.evaluations += 1;
            let want = wire::encode(&rp);
            let got = catch_unwind(AssertUnwindSafe(|| p.serialize()));
            let input = || Json::obj().set("packet", Json::s(&{ let s = format!("{:?}", rp); if s.len() > 300 { format!("{}...", &s.chars().take(300).collect::<String>()) } else { s } }));
            let bytes = match got {
                Err(_) => {
                    rep.violate("C11/serialize-panic", "Packet::serialize panicked".into(), input());
                    continue;
                }
                Ok(Err(e)) => {
                    rep.violate("C11/serialize-error", format!("Packet::serialize failed: {e}"), input());
                    continue;
                }
                Ok(Ok(b)) => b,
            };
            if bytes != want {
                rep.violate("C11/layout", format!("serialize gives {} but the RFC layout is {}", show_bytes(&bytes), show_bytes(&want)), input());
                continue;
            }
            match catch_unwind(AssertUnwindSafe(|| Packet::deserialize(&bytes))) {
                Err(_) => rep.violate("C11/deserialize-panic", "Packet::deserialize panicked on its own encoding".into(), input()),
                Ok(Err(e)) => rep.violate("C11/roundtrip", format!("own encoding rejected: {e}"), input()),
                Ok(Ok(p2)) => {
                    if p2 != p {
                        rep.violate("C11/roundtrip", format!("decode(encode(p)) = {:?}", to_ref(&p2)), input());
                    } else {
                        rep.nontrivial += 1;
                        rep.distinct.insert(crate::util::fnv(&bytes));
                        rep.class(match rp {
                            RPacket::Rrq { .. } => "rrq",
                            RPacket::Wrq { .. } => "wrq",
                            RPacket::Data { .. } => "data",
                            RPacket::Ack(_) => "ack",
                            RPacket::Error { .. } => "error",
                            RPacket::Oack(_) => "oack",
                        });
                    }
                }
            }
            if rep.samples.len() < 3 && rep.evaluations % 4099 == 5 {
                rep.samples.push(input().set("wire", Json::s(&show_bytes(&bytes))));
            }
        }
    });
    let rep = parallel(threads, work);
    rep.to_json(
        "C11",
        "for generated Packet values p: Packet::serialize(p) equals the encoding produced by an independent RFC 1350/2347 encoder, and Packet::deserialize of those bytes equals p; Opcode::from_u16 / ErrorCode::from_u16 accept exactly 1..6 / 0..7 and as_bytes is the big-endian inverse. non-trivial = packet round-tripped; distinct = distinct wire encodings.",
        "exhaustive over all 65536 u16 values for both enum conversions; packets are seeded samples from a grammar (strings: empty, ASCII, non-ASCII UTF-8, 520 bytes, random code points; option lists of length 0..6 with repeats; values 0..2^64-1; block numbers incl. 0, 255, 256, 65535; payload lengths incl. 0, 1, 511, 512, 513, 1428, 65464).",
    )
}


/// Runs the C10 oracle on one datagram; returns the first violation, if any (used by the fuzz target and `vh judge`).
pub fn judge_one(buf: &[u8]) -> Option<String> {
    let mut rep = PureReport::default();
    judge_datagram(buf, &mut rep, "single");
    rep.violations.first().map(|v| v.render())
}


pub fn seed_corpus() -> Vec<Vec<u8>> {
    let mut r = Rng::new(1);
    grammar_packets(&mut r).into_iter().step_by(7).collect()
}
