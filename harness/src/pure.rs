//! E3 — pure API harnesses (filled in below).
use crate::util::Json;
pub fn run(id: &str, _tier: &str, _seed: u64, _threads: usize) -> Json {
    Json::obj().set("property", Json::s(id)).set("error", Json::s("not implemented"))
}
