//! Reference peers written from RFC 1350 / 2347 / 7440 (see DESIGN.md appendix B).
//! They never look at the code under test.

use crate::sim::{block_slice, CaseSpec, Role};
use crate::wire::{self, RPacket};

#[derive(Clone, Debug)]
pub struct Out {
    pub bytes: Vec<u8>,
    pub is_data: bool,
    /// absolute block this datagram carries / acknowledges
    pub abs: u64,
}

#[derive(Clone, Copy, Debug, PartialEq, Eq)]
pub enum PeerState {
    Running,
    /// Rx: holds a completed copy; Tx: final block acknowledged
    Complete,
    /// retries exhausted
    GaveUp,
    /// received an ERROR (or was told to send one)
    Aborted,
}

pub enum Peer {
    Rx(RxPeer),
    Tx(TxPeer),
}

impl Peer {
    pub fn new(spec: &CaseSpec) -> Peer {
        match spec.role {
            Role::Send => Peer::Rx(RxPeer::new(spec)),
            Role::Recv => Peer::Tx(TxPeer::new(spec)),
        }
    }
    pub fn start(&mut self, now: u64) -> Vec<Out> {
        match self {
            Peer::Rx(p) => p.start(now),
            Peer::Tx(p) => p.start(now),
        }
    }
    pub fn on_packet(&mut self, now: u64, bytes: &[u8]) -> Vec<Out> {
        match self {
            Peer::Rx(p) => p.on_packet(now, bytes),
            Peer::Tx(p) => p.on_packet(now, bytes),
        }
    }
    pub fn on_timer(&mut self, now: u64) -> Vec<Out> {
        match self {
            Peer::Rx(p) => p.on_timer(now),
            Peer::Tx(p) => p.on_timer(now),
        }
    }
    pub fn timer(&self) -> Option<u64> {
        match self {
            Peer::Rx(p) => p.timer,
            Peer::Tx(p) => p.timer,
        }
    }
    pub fn state(&self) -> PeerState {
        match self {
            Peer::Rx(p) => p.state,
            Peer::Tx(p) => p.state,
        }
    }
    pub fn abort(&mut self) {
        match self {
            Peer::Rx(p) => {
                p.state = PeerState::Aborted;
                p.timer = None;
            }
            Peer::Tx(p) => {
                p.state = PeerState::Aborted;
                p.timer = None;
            }
        }
    }
    pub fn received(&self) -> Option<&[u8]> {
        match self {
            Peer::Rx(p) => Some(&p.bytes),
            Peer::Tx(_) => None,
        }
    }
}

/// value congruent to k (mod 2^16) closest to `near`
fn resolve(k: u16, near: u64) -> i64 {
    let diff = (k as i64 - (near % 65536) as i64).rem_euclid(65536);
    let diff = if diff >= 32768 { diff - 65536 } else { diff };
    near as i64 + diff
}

/// Client side of a download: in-order reassembly, cumulative ACKs.
pub struct RxPeer {
    b: usize,
    w: u64,
    ack_every: u64,
    dally: bool,
    timer_ns: u64,
    max_retries: u32,
    handshake: bool,
    quiet_dups: bool,
    expected: u64,
    since_ack: u64,
    gap_acked: bool,
    retries: u32,
    final_abs: u64,
    pub bytes: Vec<u8>,
    pub timer: Option<u64>,
    pub state: PeerState,
}

impl RxPeer {
    fn new(spec: &CaseSpec) -> RxPeer {
        RxPeer {
            b: spec.b,
            w: spec.w as u64,
            ack_every: if spec.peer.ack_every == 0 { spec.w as u64 } else { spec.peer.ack_every as u64 },
            dally: spec.peer.dally,
            timer_ns: spec.peer.timer_ns,
            max_retries: spec.peer.retries,
            handshake: spec.check_response,
            quiet_dups: spec.peer.quiet_dups,
            expected: 1,
            since_ack: 0,
            gap_acked: false,
            retries: 0,
            final_abs: 0,
            bytes: Vec::new(),
            timer: None,
            state: PeerState::Running,
        }
    }

    fn ack(&mut self, now: u64, abs: u64) -> Out {
        self.since_ack = 0;
        self.timer = if self.state == PeerState::Running { Some(now + self.timer_ns) } else { None };
        Out { bytes: wire::enc_ack((abs % 65536) as u16), is_data: false, abs }
    }

    fn start(&mut self, now: u64) -> Vec<Out> {
        self.timer = Some(now + self.timer_ns);
        if self.handshake {
            // reply to the OACK the server sent before the worker was created
            vec![self.ack(now, 0)]
        } else {
            vec![]
        }
    }

    fn on_packet(&mut self, now: u64, bytes: &[u8]) -> Vec<Out> {
        match wire::decode(bytes) {
            Some(RPacket::Data { block, data }) => {
                if self.state == PeerState::Complete {
                    if self.dally && resolve(block, self.final_abs) == self.final_abs as i64 {
                        return vec![self.ack(now, self.final_abs)];
                    }
                    return vec![];
                }
                if self.state != PeerState::Running {
                    return vec![];
                }
                self.retries = 0;
                self.timer = Some(now + self.timer_ns);
                let a = resolve(block, self.expected);
                if a == self.expected as i64 {
                    self.gap_acked = false;
                    self.bytes.extend_from_slice(&data);
                    self.expected += 1;
                    self.since_ack += 1;
                    if data.len() < self.b {
                        self.state = PeerState::Complete;
                        self.final_abs = a as u64;
                        return vec![self.ack(now, a as u64)];
                    }
                    if self.since_ack >= self.ack_every.min(self.w) {
                        return vec![self.ack(now, a as u64)];
                    }
                    vec![]
                } else if a < self.expected as i64 {
                    if self.quiet_dups {
                        return vec![];
                    }
                    // RFC 1350: a duplicate is acknowledged again
                    vec![self.ack(now, self.expected - 1)]
                } else {
                    // RFC 7440 section 4: a gap is reported once with the last in-order block
                    if self.gap_acked {
                        vec![]
                    } else {
                        self.gap_acked = true;
                        vec![self.ack(now, self.expected - 1)]
                    }
                }
            }
            Some(RPacket::Error { .. }) => {
                if self.state == PeerState::Running {
                    self.state = PeerState::Aborted;
                    self.timer = None;
                }
                vec![]
            }
            _ => vec![],
        }
    }

    fn on_timer(&mut self, now: u64) -> Vec<Out> {
        if self.state != PeerState::Running {
            self.timer = None;
            return vec![];
        }
        if self.retries >= self.max_retries {
            self.state = PeerState::GaveUp;
            self.timer = None;
            return vec![];
        }
        self.retries += 1;
        if self.expected == 1 && !self.handshake {
            // nothing received yet and nothing to acknowledge: keep waiting
            self.timer = Some(now + self.timer_ns);
            return vec![];
        }
        vec![self.ack(now, self.expected - 1)]
    }
}

/// Client side of an upload: sliding window, resend from base on timeout.
pub struct TxPeer {
    spec: CaseSpec,
    n: u64,
    w: u64,
    timer_ns: u64,
    max_retries: u32,
    base: u64,
    sent_upto: u64,
    retries: u32,
    pub timer: Option<u64>,
    pub state: PeerState,
}

impl TxPeer {
    fn new(spec: &CaseSpec) -> TxPeer {
        TxPeer {
            spec: spec.clone(),
            n: spec.nblocks(),
            w: spec.w as u64,
            timer_ns: spec.peer.timer_ns,
            max_retries: spec.peer.retries,
            base: 1,
            sent_upto: 0,
            retries: 0,
            timer: None,
            state: PeerState::Running,
        }
    }

    fn window(&mut self, now: u64) -> Vec<Out> {
        let last = (self.base + self.w - 1).min(self.n);
        let mut v = Vec::new();
        for a in self.base..=last {
            v.push(Out { bytes: wire::enc_data((a % 65536) as u16, &block_slice(&self.spec, a)), is_data: true, abs: a });
        }
        self.sent_upto = self.sent_upto.max(last);
        self.timer = Some(now + self.timer_ns);
        v
    }

    fn start(&mut self, now: u64) -> Vec<Out> {
        self.window(now)
    }

    fn on_packet(&mut self, now: u64, bytes: &[u8]) -> Vec<Out> {
        if self.state != PeerState::Running {
            return vec![];
        }
        match wire::decode(bytes) {
            Some(RPacket::Ack(k)) => {
                let d = (k as i64 - (self.base % 65536) as i64).rem_euclid(65536) as u64;
                let outstanding = self.sent_upto + 1 - self.base;
                if d < outstanding {
                    let a = self.base + d;
                    self.base = a + 1;
                    self.retries = 0;
                    if a == self.n {
                        self.state = PeerState::Complete;
                        self.timer = None;
                        return vec![];
                    }
                    return self.window(now);
                }
                // duplicate / stale ACK: never retransmit on it
                vec![]
            }
            Some(RPacket::Error { .. }) => {
                self.state = PeerState::Aborted;
                self.timer = None;
                vec![]
            }
            _ => vec![],
        }
    }

    fn on_timer(&mut self, now: u64) -> Vec<Out> {
        if self.state != PeerState::Running {
            self.timer = None;
            return vec![];
        }
        if self.retries >= self.max_retries {
            self.state = PeerState::GaveUp;
            self.timer = None;
            return vec![];
        }
        self.retries += 1;
        self.window(now)
    }
}
