//! E1 — deterministic transfer simulator around the real `tftpd::Worker`.
//!
//! `SimSocket` implements `tftpd::Socket`. Every datagram the worker emits or
//! receives crosses it on the worker's own thread, so the event log is taken at
//! the boundary of the implementation. Time is virtual (feature `verif` of the
//! crate under test): the clock only moves inside `recv`, to the next scheduled
//! delivery, the model peer's timer, or the socket's read timeout.

use crate::peers::{Out, Peer, PeerState};
use crate::util::mix64;
use crate::wire;
use std::cmp::Reverse;
use std::collections::BinaryHeap;
use std::error::Error;
use std::net::SocketAddr;
use std::path::PathBuf;
use std::sync::{Arc, Condvar, Mutex};
use std::time::Duration;
use tftpd::{Packet, Socket};

pub const MS: u64 = 1_000_000;
pub const SEC: u64 = 1_000_000_000;
/// one-way latency of the simulated network
pub const LAT: u64 = MS;

#[derive(Clone, Copy, Debug, PartialEq, Eq)]
pub enum Role {
    /// the worker sends a file (server side of a download)
    Send,
    /// the worker receives a file (server side of an upload)
    Recv,
}

#[derive(Clone, Copy, Debug, PartialEq, Eq)]
pub enum Dir {
    /// worker to peer
    W2P,
    /// peer to worker
    P2W,
}

#[derive(Clone, Copy, Debug, PartialEq, Eq)]
pub enum Act {
    Drop,
    Dup,
    /// extra delay in ns on top of the latency
    Delay(u64),
}

/// Stray datagrams a hostile network / peer can put in front of the worker.
#[derive(Clone, Copy, Debug, PartialEq, Eq)]
pub enum Stray {
    /// ACK whose number is (last cumulatively acknowledged block + rel) mod 2^16
    /// (sender role) or (last in-sequence block + rel) (receiver role)
    AckRel(i64),
    AckAbs(u16),
    /// DATA carrying the true content of block (last in-sequence + rel), receiver role
    DataRel(i64),
    /// empty OACK
    Oack,
    /// undecodable bytes
    Junk,
    /// ERROR packet (code 0)
    Error,
}

#[derive(Clone, Debug)]
pub enum Rule {
    /// act on the idx-th datagram (0-based) of a direction
    Idx { dir: Dir, idx: usize, act: Act },
    /// drop the first `count` transmissions of DATA (is_data) or ACK for absolute block `abs`
    DropFirst { dir: Dir, is_data: bool, abs: u64, count: u32 },
    /// deliver a stray to the worker immediately before the idx-th peer datagram
    InjectBefore { idx: usize, stray: Stray },
    /// deliver a stray `offset` ns after the worker's burst number `burst` (0-based) was sent;
    /// with `suppress`, peer datagrams *sent* in [burst time, burst time + max(offset, suppress_for)] are lost
    InjectAfterBurst { burst: usize, offset: u64, stray: Stray, suppress: bool, suppress_for: u64 },
    /// the link dies one way: every datagram of a direction from index `idx` on is lost
    DropFrom { dir: Dir, idx: usize },
    /// every datagram of a direction is delivered 1 + extra times
    DupAll { dir: Dir, extra: u32 },
    /// seeded random loss in permille for a direction
    Loss { dir: Dir, permille: u32, seed: u64 },
    /// the worker's idx-th call of `send` (0-based, all attempts counted) fails with an error and transmits nothing
    /// (a transient local error: ICMP port unreachable from an earlier datagram, ENOBUFS)
    SendFail { idx: usize },
}

#[derive(Clone, Debug)]
pub struct PeerSpec {
    /// Rx peer: acknowledge after this many in-order blocks (0 = the negotiated windowsize)
    pub ack_every: u16,
    pub timer_ns: u64,
    pub retries: u32,
    pub dally: bool,
    /// the peer emits nothing from its j-th output datagram on
    pub silent_from: Option<usize>,
    /// the peer's j-th output datagram is replaced by an ERROR, after which it is silent
    pub error_at: Option<usize>,
    /// which message the peer's / stray ERROR packets carry (0 = short ASCII; others = long, multi-byte characters
    /// at different alignments)
    pub error_text: u8,
    /// Rx peer: old duplicates of blocks it already holds are ignored instead of acknowledged again (what windowed
    /// clients do; with duplicate-packets mode and large windows every re-ACK would repeat a whole window)
    pub quiet_dups: bool,
}

impl PeerSpec {
    pub fn conformant(timer_ns: u64) -> PeerSpec {
        PeerSpec { ack_every: 0, timer_ns, retries: 12, dally: false, silent_from: None, error_at: None, error_text: 0, quiet_dups: false }
    }
    pub fn is_plain(&self) -> bool {
        self.silent_from.is_none() && self.error_at.is_none()
    }
}

#[derive(Clone, Debug)]
pub struct CaseSpec {
    pub label: String,
    pub role: Role,
    pub b: usize,
    pub w: u16,
    /// retransmission timeout handed to the worker
    pub t_ns: u64,
    /// read timeout of the socket (the server sets both from the same option)
    pub read_timeout_ns: u64,
    pub repeat: u8,
    pub check_response: bool,
    pub clean: bool,
    pub len: u64,
    pub seed: u64,
    pub peer: PeerSpec,
    pub rules: Vec<Rule>,
    /// write failpoint: number of chunk writes that succeed before one fails
    pub write_budget: Option<u64>,
    pub max_events: usize,
    /// upload target already exists with this many bytes of unrelated content (0 = no file)
    pub pre_existing: u64,
    /// the write failpoint is disarmed again when the worker makes its n-th receive call (a transient storage error:
    /// space that is freed, a quota that is raised)
    pub write_rearm_at_recv: Option<u64>,
}

impl CaseSpec {
    pub fn nblocks(&self) -> u64 {
        self.len / self.b as u64 + 1
    }
    pub fn hostile(&self) -> bool {
        !self.peer.is_plain()
            || self.write_budget.is_some()
            || self.rules.iter().any(|r| matches!(r, Rule::InjectBefore { .. } | Rule::InjectAfterBurst { .. } | Rule::SendFail { .. }))
    }
}

/// Seeds whose top byte is one of these select a degenerate content class instead of offset-keyed bytes: what a
/// content-sensitive shortcut (sparse files, run-length tricks, zero-block elision) would treat specially.
pub const KIND_ZEROS: u64 = 0xC0;
pub const KIND_SPARSE: u64 = 0xC1;
pub const KIND_ONES: u64 = 0xC2;
pub const KIND_TEXT: u64 = 0xC3;

pub fn with_kind(seed: u64, kind: u64) -> u64 {
    (seed & 0x00FF_FFFF_FFFF_FFFF) | (kind << 56)
}

/// Offset-keyed content: 8-byte big-endian words mix64(seed + index); see `KIND_*` for the degenerate classes.
pub fn content(seed: u64, from: u64, to: u64) -> Vec<u8> {
    match seed >> 56 {
        KIND_ZEROS => return vec![0u8; (to - from) as usize],
        KIND_ONES => return vec![0xFFu8; (to - from) as usize],
        KIND_TEXT => return (from..to).map(|o| if o % 64 == 63 { b'\n' } else { b'a' + (o / 64 % 26) as u8 }).collect(),
        KIND_SPARSE => {
            // 64 KiB regions: every second one (keyed) is a hole; elsewhere 512-byte sectors are zero with probability
            // 1/2; the rest is offset-keyed
            let key = with_kind(seed, 0);
            let mut v = Vec::with_capacity((to - from) as usize);
            let mut o = from;
            while o < to {
                let end = ((o / 512 + 1) * 512).min(to);
                let hole = mix64(key ^ 0xA5A5 ^ (o >> 16)) & 1 == 0 || mix64(key ^ 0x5A5A ^ (o >> 9)) & 1 == 0;
                if hole {
                    v.resize(v.len() + (end - o) as usize, 0);
                } else {
                    v.extend_from_slice(&content(key, o, end));
                }
                o = end;
            }
            return v;
        }
        _ => {}
    }
    let mut v = Vec::with_capacity((to - from) as usize);
    let mut o = from;
    while o < to {
        let word = mix64(seed.wrapping_add(o / 8)).to_be_bytes();
        let start = (o % 8) as usize;
        let take = ((8 - start) as u64).min(to - o) as usize;
        v.extend_from_slice(&word[start..start + take]);
        o += take as u64;
    }
    v
}

pub fn block_slice(spec: &CaseSpec, abs: u64) -> Vec<u8> {
    let b = spec.b as u64;
    let from = (abs - 1).saturating_mul(b).min(spec.len);
    let to = abs.saturating_mul(b).min(spec.len);
    content(spec.seed, from, to)
}

#[derive(Clone, Debug, PartialEq, Eq)]
pub enum Pk {
    /// abs: absolute block identified from the payload content (worker sends) or
    /// known from the peer (deliveries); 0 = content matches no block with that number
    Data { blk: u16, len: usize, abs: u64 },
    Ack(u16),
    Error(u16),
    Oack,
    Other(u16),
}

#[derive(Clone, Debug)]
pub enum Ev {
    Send { vt: u64, pkt: Pk, file_len: i64, file_prefix_ok: bool },
    RecvOk { vt: u64, pkt: Pk, tag: &'static str },
    RecvTimeout { vt: u64 },
    RecvJunk { vt: u64, tag: &'static str },
    Cap,
}

#[derive(Clone, Debug)]
struct Delivery {
    to_worker: bool,
    bytes: Vec<u8>,
    abs: u64,
    tag: &'static str,
}

struct QItem(u64, u64, Delivery);
impl PartialEq for QItem {
    fn eq(&self, o: &Self) -> bool {
        self.0 == o.0 && self.1 == o.1
    }
}
impl Eq for QItem {}
impl PartialOrd for QItem {
    fn partial_cmp(&self, o: &Self) -> Option<std::cmp::Ordering> {
        Some(self.cmp(o))
    }
}
impl Ord for QItem {
    fn cmp(&self, o: &Self) -> std::cmp::Ordering {
        (self.0, self.1).cmp(&(o.0, o.1))
    }
}

/// A gate lets the harness pause a worker inside `recv` (used for histories
/// with two workers on one path): the n-th receive attempt blocks until opened.
#[derive(Default)]
pub struct Gate {
    pub at_recv: usize,
    pub reached: Mutex<bool>,
    pub reached_cv: Condvar,
    pub open: Mutex<bool>,
    pub open_cv: Condvar,
}

pub struct Core {
    pub spec: CaseSpec,
    pub path: PathBuf,
    pub now: u64,
    pub log: Vec<Ev>,
    pub capped: bool,
    queue: BinaryHeap<Reverse<QItem>>,
    seq: u64,
    peer: Peer,
    started: bool,
    idx_w2p: usize,
    idx_p2w: usize,
    peer_out_count: usize,
    peer_muted: bool,
    in_burst: bool,
    pub burst_times: Vec<u64>,
    suppress_until: Option<u64>,
    dropfirst_left: Vec<u32>,
    send_attempts: usize,
    loss_state: Vec<u64>,
    recv_calls: usize,
    pub rules_fired: usize,
    // online shadow state for relative strays
    acked: u64,    // sender role: last cumulatively acknowledged absolute block
    max_sent: u64, // sender role
    inseq: u64,    // receiver role: blocks delivered in sequence
    pub gate: Option<Arc<Gate>>,
    armed: bool,
    final_ack_sent: usize,
    final_ack_delivered: usize,
    drops: usize,
    pub dgram_abs: [Vec<u64>; 2],
    verified_prefix: u64,
    consecutive_timeouts: u32,
    calls_after_cap: u32,
}

impl Core {
    pub fn new(spec: CaseSpec, path: PathBuf) -> Core {
        let peer = Peer::new(&spec);
        let dropfirst_left = spec
            .rules
            .iter()
            .map(|r| if let Rule::DropFirst { count, .. } = r { *count } else { 0 })
            .collect();
        let loss_state = spec
            .rules
            .iter()
            .map(|r| if let Rule::Loss { seed, .. } = r { *seed } else { 0 })
            .collect();
        Core {
            spec,
            path,
            now: 0,
            log: Vec::new(),
            capped: false,
            queue: BinaryHeap::new(),
            seq: 0,
            peer,
            started: false,
            idx_w2p: 0,
            idx_p2w: 0,
            peer_out_count: 0,
            peer_muted: false,
            in_burst: false,
            burst_times: Vec::new(),
            suppress_until: None,
            dropfirst_left,
            send_attempts: 0,
            loss_state,
            recv_calls: 0,
            rules_fired: 0,
            acked: 0,
            max_sent: 0,
            inseq: 0,
            gate: None,
            armed: false,
            final_ack_sent: 0,
            final_ack_delivered: 0,
            drops: 0,
            dgram_abs: [Vec::new(), Vec::new()],
            verified_prefix: 0,
            consecutive_timeouts: 0,
            calls_after_cap: 0,
        }
    }

    pub fn peer_state(&self) -> PeerState {
        self.peer.state()
    }

    fn sync_clock(&mut self) {
        tftpd::verif::set_now(tftpd::verif::VIRTUAL_EPOCH + Duration::from_nanos(self.now));
        if !self.armed {
            self.armed = true;
            tftpd::verif::set_write_budget(self.spec.write_budget);
        }
    }

    fn push(&mut self, at: u64, d: Delivery) {
        self.seq += 1;
        self.queue.push(Reverse(QItem(at, self.seq, d)));
    }

    fn start_peer(&mut self) {
        if !self.started {
            self.started = true;
            let outs = self.peer.start(self.now);
            self.peer_outputs(self.now, outs);
        }
    }

    fn identify(&self, blk: u16, payload: &[u8]) -> u64 {
        // absolute blocks congruent to blk whose file slice equals the payload
        let n = self.spec.nblocks();
        let mut a = blk as u64;
        if a == 0 {
            a = 65536;
        }
        // prefer the candidate closest to what has been sent so far
        let mut best = 0u64;
        let mut best_dist = u64::MAX;
        while a <= n + 65536 {
            if a <= n + 2 * self.spec.w as u64 + 2 && block_slice(&self.spec, a) == payload {
                let d = a.abs_diff(self.max_sent + 1);
                if d < best_dist {
                    best = a;
                    best_dist = d;
                }
            }
            a += 65536;
        }
        best
    }

    fn classify_w(&self, bytes: &[u8]) -> Pk {
        match wire::decode(bytes) {
            Some(wire::RPacket::Data { block, data }) => {
                let abs = if self.spec.role == Role::Send { self.identify(block, &data) } else { 0 };
                Pk::Data { blk: block, len: data.len(), abs }
            }
            Some(wire::RPacket::Ack(k)) => Pk::Ack(k),
            Some(wire::RPacket::Error { code, .. }) => Pk::Error(code),
            Some(wire::RPacket::Oack(_)) => Pk::Oack,
            _ => Pk::Other(if bytes.len() >= 2 { u16::from_be_bytes([bytes[0], bytes[1]]) } else { 0xffff }),
        }
    }

    fn file_check(&mut self) -> (i64, bool) {
        use std::io::{Read, Seek, SeekFrom};
        if self.spec.len <= 256 * 1024 {
            return match std::fs::read(&self.path) {
                Ok(data) => {
                    let ok = data.len() as u64 <= self.spec.len && data == content(self.spec.seed, 0, data.len() as u64);
                    (data.len() as i64, ok)
                }
                Err(_) => (-1, false),
            };
        }
        // large files: verify only what was appended since the last check
        // (the whole file is compared once more after the worker has ended)
        let Ok(mut f) = std::fs::File::open(&self.path) else { return (-1, false) };
        let Ok(meta) = f.metadata() else { return (-1, false) };
        let len = meta.len();
        if len > self.spec.len || len < self.verified_prefix {
            return (len as i64, false);
        }
        let mut buf = vec![0u8; (len - self.verified_prefix) as usize];
        if f.seek(SeekFrom::Start(self.verified_prefix)).is_err() || f.read_exact(&mut buf).is_err() {
            return (len as i64, false);
        }
        let ok = buf == content(self.spec.seed, self.verified_prefix, len);
        if ok {
            self.verified_prefix = len;
        }
        (len as i64, ok)
    }

    /// Decide what happens to datagram number `idx` of direction `dir`.
    fn fate(&mut self, dir: Dir, idx: usize, is_data: bool, abs: u64, sent_at: u64) -> Vec<u64> {
        // returns the list of extra delays for each copy delivered (empty = lost)
        if self.dgram_abs[dir as usize].len() < 400_000 {
            self.dgram_abs[dir as usize].push(abs);
        }
        let mut copies = vec![0u64];
        for ri in 0..self.spec.rules.len() {
            match self.spec.rules[ri].clone() {
                Rule::Idx { dir: d, idx: i, act } if d == dir && i == idx => {
                    self.rules_fired += 1;
                    match act {
                        Act::Drop => copies.clear(),
                        Act::Dup => {
                            if let Some(&c) = copies.first() {
                                copies.push(c);
                            }
                        }
                        Act::Delay(x) => {
                            for c in copies.iter_mut() {
                                *c += x;
                            }
                        }
                    }
                }
                Rule::DropFirst { dir: d, is_data: isd, abs: a, .. } if d == dir && isd == is_data && a == abs => {
                    if self.dropfirst_left[ri] > 0 {
                        self.dropfirst_left[ri] -= 1;
                        self.rules_fired += 1;
                        copies.clear();
                    }
                }
                Rule::DropFrom { dir: d, idx: i } if d == dir && idx >= i => {
                    self.rules_fired += 1;
                    copies.clear();
                }
                Rule::DupAll { dir: d, extra } if d == dir => {
                    if let Some(&c) = copies.first() {
                        for _ in 0..extra {
                            copies.push(c);
                        }
                    }
                }
                Rule::Loss { dir: d, permille, .. } if d == dir => {
                    self.loss_state[ri] = self.loss_state[ri].wrapping_add(0x9E37_79B9_7F4A_7C15);
                    if mix64(self.loss_state[ri]) % 1000 < permille as u64 {
                        self.rules_fired += 1;
                        copies.clear();
                    }
                }
                _ => {}
            }
        }
        if dir == Dir::P2W {
            if let Some(until) = self.suppress_until {
                if sent_at <= until {
                    copies.clear();
                }
            }
        }
        if copies.is_empty() || copies.iter().any(|c| *c >= self.spec.t_ns.min(self.spec.peer.timer_ns)) {
            self.drops += 1;
        }
        let ack_dir = if self.spec.role == Role::Recv { Dir::W2P } else { Dir::P2W };
        if dir == ack_dir && !is_data && abs == self.spec.nblocks() {
            self.final_ack_sent += 1;
            self.final_ack_delivered += copies.len();
        }
        copies
    }

    fn stray_bytes(&self, s: Stray) -> (Vec<u8>, u64, &'static str) {
        let base = if self.spec.role == Role::Send { self.acked } else { self.inseq };
        match s {
            Stray::AckRel(rel) => {
                let k = ((base as i64 + rel).rem_euclid(65536)) as u16;
                (wire::enc_ack(k), 0, "stray-ack")
            }
            Stray::AckAbs(k) => (wire::enc_ack(k), 0, "stray-ack"),
            Stray::DataRel(rel) => {
                let a = (base as i64 + rel).max(1) as u64;
                let a = a.min(self.spec.nblocks());
                (wire::enc_data((a % 65536) as u16, &block_slice(&self.spec, a)), a, "stray-data")
            }
            Stray::Oack => (wire::enc_oack(&[]), 0, "stray-oack"),
            Stray::Junk => (vec![0, 9, 1, 2, 3], 0, "stray-junk"),
            Stray::Error => (wire::enc_error(error_code(self.spec.peer.error_text), &error_text(self.spec.peer.error_text)), 0, "stray-error"),
        }
    }

    fn peer_outputs(&mut self, at: u64, outs: Vec<Out>) {
        for o in outs {
            let j = self.peer_out_count;
            self.peer_out_count += 1;
            if self.peer_muted {
                continue;
            }
            if let Some(s) = self.spec.peer.silent_from {
                if j >= s {
                    self.peer_muted = true;
                    self.rules_fired += 1;
                    continue;
                }
            }
            let mut o = o;
            if self.spec.peer.error_at == Some(j) {
                self.rules_fired += 1;
                self.peer_muted = true;
                self.peer.abort();
                o = Out { bytes: wire::enc_error(error_code(self.spec.peer.error_text), &error_text(self.spec.peer.error_text)), is_data: false, abs: 0 };
            }
            let idx = self.idx_p2w;
            self.idx_p2w += 1;
            // strays scheduled in front of this datagram (content resolved at delivery time)
            for ri in 0..self.spec.rules.len() {
                if let Rule::InjectBefore { idx: i, stray } = self.spec.rules[ri].clone() {
                    if i == idx {
                        self.rules_fired += 1;
                        self.push(at + LAT, Delivery { to_worker: true, bytes: vec![], abs: ri as u64, tag: stray_tag(stray) });
                    }
                }
            }
            for extra in self.fate(Dir::P2W, idx, o.is_data, o.abs, at) {
                let tag = if extra > 0 { "delayed" } else { "" };
                self.push(at + LAT + extra, Delivery { to_worker: true, bytes: o.bytes.clone(), abs: o.abs, tag });
            }
        }
    }

    fn on_worker_send(&mut self, bytes: Vec<u8>) -> Result<(), Box<dyn Error>> {
        self.sync_clock();
        if self.capped {
            self.after_cap();
            return Err("simulation event cap reached".into());
        }
        self.start_peer();
        let attempt = self.send_attempts;
        self.send_attempts += 1;
        if self.spec.rules.iter().any(|r| matches!(r, Rule::SendFail { idx } if *idx == attempt)) {
            self.rules_fired += 1;
            return Err("simulated send failure".into());
        }
        let pkt = self.classify_w(&bytes);
        let (mut file_len, mut file_ok) = (-2i64, true);
        let mut is_data = false;
        let mut abs = 0u64;
        match &pkt {
            Pk::Data { abs: a, .. } => {
                is_data = true;
                abs = *a;
                if *a > self.max_sent {
                    self.max_sent = *a;
                }
            }
            Pk::Ack(k) => {
                if self.spec.role == Role::Recv {
                    let (l, ok) = self.file_check();
                    file_len = l;
                    file_ok = ok;
                    // resolve to the largest absolute block <= inseq congruent to k
                    let d = ((self.inseq % 65536) as i64 - *k as i64).rem_euclid(65536) as u64;
                    abs = self.inseq.saturating_sub(d);
                }
            }
            _ => {}
        }
        self.log.push(Ev::Send { vt: self.now, pkt, file_len, file_prefix_ok: file_ok });
        if !self.in_burst {
            self.in_burst = true;
            let burst = self.burst_times.len();
            self.burst_times.push(self.now);
            for ri in 0..self.spec.rules.len() {
                if let Rule::InjectAfterBurst { burst: bi, offset, stray, suppress, suppress_for } = self.spec.rules[ri].clone() {
                    if bi == burst {
                        self.rules_fired += 1;
                        self.push(self.now + offset, Delivery { to_worker: true, bytes: vec![], abs: ri as u64, tag: stray_tag(stray) });
                        if suppress {
                            let until = self.now + offset.max(suppress_for);
                            self.suppress_until = Some(self.suppress_until.map_or(until, |u| u.max(until)));
                        }
                    }
                }
            }
        }
        let idx = self.idx_w2p;
        self.idx_w2p += 1;
        for extra in self.fate(Dir::W2P, idx, is_data, abs, self.now) {
            self.push(self.now + LAT + extra, Delivery { to_worker: false, bytes: bytes.clone(), abs, tag: "" });
        }
        if self.log.len() > self.spec.max_events {
            self.capped = true;
            self.log.push(Ev::Cap);
        }
        Ok(())
    }

    /// Runs the discrete-event loop until something is delivered to the worker
    /// or `deadline` passes. `None` = timeout.
    fn step_until(&mut self, deadline: u64, worker_alive: bool) -> Option<Delivery> {
        loop {
            let next_q = self.queue.peek().map(|Reverse(q)| q.0);
            let next_t = self.peer.timer();
            let (t, is_timer) = match (next_q, next_t) {
                (None, None) => return None,
                (Some(q), None) => (q, false),
                (None, Some(t)) => (t, true),
                (Some(q), Some(t)) => {
                    if q <= t {
                        (q, false)
                    } else {
                        (t, true)
                    }
                }
            };
            if t > deadline {
                return None;
            }
            if t > self.now {
                self.now = t;
            }
            if is_timer {
                let outs = self.peer.on_timer(self.now);
                let at = self.now;
                self.peer_outputs(at, outs);
                continue;
            }
            let Reverse(QItem(_, _, d)) = self.queue.pop().unwrap();
            if d.to_worker {
                if worker_alive {
                    return Some(d);
                }
                continue;
            }
            let outs = self.peer.on_packet(self.now, &d.bytes);
            let at = self.now;
            self.peer_outputs(at, outs);
        }
    }

    fn on_worker_recv(&mut self, size: usize) -> Result<Packet, Box<dyn Error>> {
        self.sync_clock();
        if self.capped {
            self.after_cap();
            return Err("simulation event cap reached".into());
        }
        self.start_peer();
        self.in_burst = false;
        self.recv_calls += 1;
        if self.spec.write_rearm_at_recv == Some(self.recv_calls as u64) {
            tftpd::verif::set_write_budget(None);
        }
        let deadline = self.now + self.spec.read_timeout_ns;
        match self.step_until(deadline, true) {
            None => {
                self.now = deadline;
                self.sync_clock();
                self.log.push(Ev::RecvTimeout { vt: self.now });
                // a worker that keeps waiting is cut off long after the monitors' bound (16) was exceeded
                self.consecutive_timeouts += 1;
                if self.consecutive_timeouts > 48 && !self.capped {
                    self.capped = true;
                    self.log.push(Ev::Cap);
                }
                self.cap_check();
                Err("simulated receive timeout".into())
            }
            Some(mut d) => {
                self.consecutive_timeouts = 0;
                self.sync_clock();
                if d.bytes.is_empty() && d.tag.starts_with("stray") {
                    // late-bound stray: resolve against the state at delivery time
                    let ri = d.abs as usize;
                    let stray = match &self.spec.rules[ri] {
                        Rule::InjectBefore { stray, .. } | Rule::InjectAfterBurst { stray, .. } => *stray,
                        _ => Stray::Junk,
                    };
                    let (bytes, abs, tag) = self.stray_bytes(stray);
                    d.bytes = bytes;
                    d.abs = abs;
                    d.tag = tag;
                }
                let cut = d.bytes.len().min(size + 4);
                match Packet::deserialize(&d.bytes[..cut]) {
                    Ok(p) => {
                        let pk = match &p {
                            Packet::Data { block_num, data } => Pk::Data { blk: *block_num, len: data.len(), abs: d.abs },
                            Packet::Ack(k) => Pk::Ack(*k),
                            Packet::Error { code, .. } => Pk::Error(*code as u16),
                            Packet::Oack(_) => Pk::Oack,
                            Packet::Rrq { .. } => Pk::Other(1),
                            Packet::Wrq { .. } => Pk::Other(2),
                        };
                        // shadow state
                        match &pk {
                            Pk::Ack(k) if self.spec.role == Role::Send => {
                                let dd = (*k as i64 - (self.acked % 65536) as i64).rem_euclid(65536) as u64;
                                if dd >= 1 && dd <= self.max_sent.saturating_sub(self.acked) {
                                    self.acked += dd;
                                }
                            }
                            Pk::Data { abs, len, .. } if self.spec.role == Role::Recv => {
                                if *abs == self.inseq + 1 && *len == block_slice(&self.spec, *abs).len() {
                                    self.inseq += 1;
                                }
                            }
                            _ => {}
                        }
                        self.log.push(Ev::RecvOk { vt: self.now, pkt: pk, tag: d.tag });
                        self.cap_check();
                        Ok(p)
                    }
                    Err(e) => {
                        self.log.push(Ev::RecvJunk { vt: self.now, tag: d.tag });
                        self.cap_check();
                        Err(e)
                    }
                }
            }
        }
    }

    /// A worker that keeps calling the socket although every call fails since the cap was hit would spin forever;
    /// its thread is unwound instead (the case is reported as capped, not as a panic of the code under test).
    fn after_cap(&mut self) {
        self.calls_after_cap += 1;
        if self.calls_after_cap > 64 {
            panic!("simulation cap: the worker does not stop calling the socket");
        }
    }

    fn cap_check(&mut self) {
        if self.log.len() > self.spec.max_events && !self.capped {
            self.capped = true;
            self.log.push(Ev::Cap);
        }
    }

    /// After the worker thread has ended: let the peer consume what is still in
    /// flight and run its own timers out, so its final state is known.
    pub fn drain(&mut self) {
        let mut guard = 0;
        while guard < 100_000 {
            guard += 1;
            if self.peer.state() != PeerState::Running {
                break;
            }
            if self.step_until(u64::MAX, false).is_none() {
                break;
            }
        }
    }

    pub fn peer_bytes(&self) -> Option<&[u8]> {
        self.peer.received()
    }
}

/// ERROR message variants: peers may send any text; long valid UTF-8 with a multi-byte character at various offsets
/// ERROR code that goes with message kind `kind`: kinds 100..=107 are a short message with code kind-100, the long
/// messages cycle through all eight codes, kind 0 is code 0
pub fn error_code(kind: u8) -> u16 {
    match kind {
        0 => 0,
        100..=107 => (kind - 100) as u16,
        k => (k % 8) as u16,
    }
}

pub fn error_text(kind: u8) -> Vec<u8> {
    match kind {
        0 => b"peer gives up".to_vec(),
        100..=107 => format!("peer gives up with code {}", kind - 100).into_bytes(),
        k => {
            let pre = [0usize, 31, 62, 63, 64, 127, 254, 255, 256][(k as usize - 1) % 9];
            let ch = ["\u{e9}", "\u{6587}", "\u{1F600}"][(k as usize - 1) / 9 % 3];
            format!("{}{}", "a".repeat(pre), ch.repeat(40)).into_bytes()
        }
    }
}

fn stray_tag(s: Stray) -> &'static str {
    match s {
        Stray::AckRel(_) | Stray::AckAbs(_) => "stray-ack",
        Stray::DataRel(_) => "stray-data",
        Stray::Oack => "stray-oack",
        Stray::Junk => "stray-junk",
        Stray::Error => "stray-error",
    }
}

pub struct SimSocket {
    pub core: Arc<Mutex<Core>>,
}

impl SimSocket {
    fn gate_wait(&self) {
        let gate = {
            let c = self.core.lock().unwrap();
            match &c.gate {
                Some(g) if c.recv_calls == g.at_recv => Some(g.clone()),
                _ => None,
            }
        };
        if let Some(g) = gate {
            *g.reached.lock().unwrap() = true;
            g.reached_cv.notify_all();
            let mut open = g.open.lock().unwrap();
            while !*open {
                open = g.open_cv.wait(open).unwrap();
            }
        }
    }
}

impl Socket for SimSocket {
    fn send(&self, packet: &Packet) -> Result<(), Box<dyn Error>> {
        let bytes = packet.serialize()?;
        self.core.lock().unwrap().on_worker_send(bytes)
    }

    fn send_to(&self, packet: &Packet, _to: &SocketAddr) -> Result<(), Box<dyn Error>> {
        self.send(packet)
    }

    fn recv_with_size(&self, size: usize) -> Result<Packet, Box<dyn Error>> {
        self.gate_wait();
        self.core.lock().unwrap().on_worker_recv(size)
    }

    fn recv_from_with_size(&self, size: usize) -> Result<(Packet, SocketAddr), Box<dyn Error>> {
        Ok((self.recv_with_size(size)?, self.remote_addr()?))
    }

    fn remote_addr(&self) -> Result<SocketAddr, Box<dyn Error>> {
        Ok(SocketAddr::from(([127, 0, 0, 1], 50000)))
    }

    fn set_read_timeout(&mut self, dur: Duration) -> Result<(), Box<dyn Error>> {
        self.core.lock().unwrap().spec.read_timeout_ns = dur.as_nanos() as u64;
        Ok(())
    }

    fn set_write_timeout(&mut self, _dur: Duration) -> Result<(), Box<dyn Error>> {
        Ok(())
    }
}

#[derive(Clone, Copy, Debug, PartialEq, Eq)]
pub enum EndHow {
    Joined,
    Panicked,
    Capped,
}

pub struct Outcome {
    pub log: Vec<Ev>,
    pub end: EndHow,
    pub peer: PeerState,
    /// bytes reassembled by a receiving peer (download), if it completed
    pub peer_bytes: Option<Vec<u8>>,
    /// file at the upload path after the worker ended (None = absent)
    pub file_after: Option<Vec<u8>>,
    pub rules_fired: usize,
    pub burst_times: Vec<u64>,
    pub vt_end: u64,
    pub n_w2p: usize,
    pub n_p2w: usize,
    pub peer_outs: usize,
    /// every copy of the ACK for the final block was lost in the network
    pub lost_final_ack: bool,
    /// datagrams dropped or delayed by the fault plan
    pub drops: usize,
    /// absolute block carried / acknowledged by each datagram, per direction (W2P, P2W)
    pub dgram_abs: [Vec<u64>; 2],
}

/// Executes one case against the real `tftpd::Worker`.
pub fn run_case(spec: &CaseSpec, dir: &std::path::Path, uniq: u64) -> Outcome {
    let path = dir.join(format!("f{uniq:x}.bin"));
    let _ = std::fs::remove_file(&path);
    if spec.role == Role::Send {
        std::fs::write(&path, content(spec.seed, 0, spec.len)).expect("write source file");
    } else if spec.pre_existing > 0 {
        std::fs::write(&path, vec![0xEEu8; spec.pre_existing as usize]).expect("write pre-existing target");
    }
    let core = Arc::new(Mutex::new(Core::new(spec.clone(), path.clone())));
    let mut sock: Box<SimSocket> = Box::new(SimSocket { core: core.clone() });
    sock.set_read_timeout(Duration::from_nanos(spec.read_timeout_ns)).unwrap();
    let worker = tftpd::Worker::new(
        sock,
        path.clone(),
        spec.clean,
        spec.b,
        Duration::from_nanos(spec.t_ns),
        spec.w,
        spec.repeat,
    );
    let handle = match spec.role {
        Role::Send => worker.send(spec.check_response),
        Role::Recv => worker.receive(),
    }
    .expect("worker start");
    let joined = handle.join();
    let mut c = core.lock().unwrap_or_else(|p| p.into_inner());
    c.drain();
    let end = if c.capped {
        EndHow::Capped
    } else if joined.is_err() {
        EndHow::Panicked
    } else {
        EndHow::Joined
    };
    let file_after = if spec.role == Role::Recv { std::fs::read(&path).ok() } else { None };
    let peer_bytes = if c.peer_state() == PeerState::Complete { c.peer_bytes().map(|b| b.to_vec()) } else { None };
    let out = Outcome {
        log: std::mem::take(&mut c.log),
        end,
        peer: c.peer_state(),
        peer_bytes,
        file_after,
        rules_fired: c.rules_fired,
        burst_times: c.burst_times.clone(),
        vt_end: c.now,
        n_w2p: c.idx_w2p,
        n_p2w: c.idx_p2w,
        peer_outs: c.peer_out_count,
        lost_final_ack: c.final_ack_sent > 0 && c.final_ack_delivered == 0,
        drops: c.drops,
        dgram_abs: std::mem::take(&mut c.dgram_abs),
    };
    drop(c);
    let _ = std::fs::remove_file(&path);
    out
}
