//! vh — harness entry point.
//!   vh sim <ID> --tier quick|thorough --seed N --threads N --out FILE [--only IDX]
//!   vh pure <ID> --tier .. --seed N --threads N --out FILE
//! Results go to --out as JSON; stdout/stderr carry the worker's own log lines.

use std::sync::Arc;
use vharness::runner::{execute, spec_json};
use vharness::util::Json;

fn arg(args: &[String], name: &str) -> Option<String> {
    args.iter().position(|a| a == name).and_then(|i| args.get(i + 1).cloned())
}

fn main() {
    let args: Vec<String> = std::env::args().collect();
    if args.len() < 3 {
        eprintln!("usage: vh sim|pure <ID> --tier T --seed N --threads N --out FILE");
        std::process::exit(2);
    }
    let engine = args[1].as_str();
    if engine == "judge" {
        // vh judge <file>...: C10 oracle on the bytes of each file; prints one JSON line per file
        std::panic::set_hook(Box::new(|_| {}));
        for f in &args[2..] {
            let data = std::fs::read(f).unwrap_or_default();
            match vharness::pure::judge_one(&data) {
                Some(v) => println!("{{\"file\":\"{}\",\"violation\":{}}}", f, v),
                None => println!("{{\"file\":\"{}\",\"violation\":null}}", f),
            }
        }
        return;
    }
    if engine == "corpus" {
        // vh corpus <dir>: seed corpus for the fuzz target (the grammar packets of the C10 workload)
        let dir = std::path::PathBuf::from(&args[2]);
        std::fs::create_dir_all(&dir).unwrap();
        for (i, p) in vharness::pure::seed_corpus().iter().enumerate() {
            std::fs::write(dir.join(format!("seed{i:05}")), p).unwrap();
        }
        return;
    }
    let id = args[2].as_str();
    let tier = arg(&args, "--tier").unwrap_or_else(|| "quick".into());
    let seed: u64 = arg(&args, "--seed").and_then(|s| s.parse().ok()).unwrap_or(1);
    let threads: usize = arg(&args, "--threads").and_then(|s| s.parse().ok()).unwrap_or(16);
    let out = arg(&args, "--out").unwrap_or_else(|| "/dev/stdout".into());
    let only: Option<usize> = arg(&args, "--only").and_then(|s| s.parse().ok());
    let shard: (usize, usize) = arg(&args, "--shard")
        .and_then(|s| {
            let (a, b) = s.split_once('/')?;
            Some((a.parse().ok()?, b.parse().ok()?))
        })
        .unwrap_or((0, 1));
    let t0 = std::time::Instant::now();
    let json = match engine {
        "sim" => sim(id, &tier, seed, threads, only, shard),
        "pure" => vharness::pure::run(id, &tier, seed, threads),
        "miri" => {
            if matches!(id, "C10" | "C11" | "C18") {
                vharness::pure::run(id, "miri", seed, 1)
            } else {
                vharness::props::miri_slice(id, seed)
            }
        }
        _ => {
            eprintln!("unknown engine {engine}");
            std::process::exit(2);
        }
    };
    let json = json.set("wall_s", Json::Num(t0.elapsed().as_secs_f64()));
    std::fs::write(&out, json.render()).expect("write report");
}

fn sim(id: &str, tier: &str, seed: u64, threads: usize, only: Option<usize>, shard: (usize, usize)) -> Json {
    tftpd::verif::enable_virtual_time();
    // worker threads that are unwound by the simulator (cap) or that panic in an overflow-checked build are
    // recorded in the case outcome; keep stderr quiet
    std::panic::set_hook(Box::new(|_| {}));
    let Some(plan) = vharness::props::build(id, tier, seed, threads) else {
        eprintln!("no simulator plan for {id}");
        std::process::exit(2);
    };
    let ncases = plan.cases.len();
    let cases = Arc::new(plan.cases);
    let rep = execute(cases.clone(), threads, plan.judge.clone(), only, shard);
    let mut missing: Vec<Json> = Vec::new();
    if only.is_none() && shard.1 == 1 {
        for c in &plan.required_classes {
            if rep.classes.get(*c).copied().unwrap_or(0) == 0 {
                missing.push(Json::s(c));
            }
        }
    }
    let mut viols = Vec::new();
    for v in &rep.violations {
        viols.push(
            Json::obj()
                .set("case_index", Json::u(v.case_index))
                .set("rule", Json::s(v.finding.rule))
                .set("detail", Json::s(&v.finding.detail))
                .set("at_event", Json::u(v.finding.at))
                .set("family", Json::s(&vharness::runner::family_of(&v.spec.label)))
                .set("end", Json::s(&v.end))
                .set("spec", spec_json(&v.spec))
                .set("trace", v.trace.clone()),
        );
    }
    let mapj = |m: &std::collections::BTreeMap<String, u64>| Json::Obj(m.iter().map(|(k, v)| (k.clone(), Json::i(*v as i64))).collect());
    let mut j = Json::obj()
        .set("engine", Json::s("sim"))
        .set("property", Json::s(id))
        .set("tier", Json::s(tier))
        .set("seed", Json::i(seed as i64))
        .set("cases_generated", Json::u(ncases))
        .set("evaluations", Json::i(rep.evaluations as i64))
        .set("nontrivial", Json::i(rep.nontrivial as i64))
        .set("distinct_nontrivial_shapes", Json::u(rep.shapes.len()))
        .set("shape_hashes", Json::Arr(rep.shapes.iter().map(|h| Json::s(&format!("{h:x}"))).collect()))
        .set("required_classes", Json::Arr(plan.required_classes.iter().map(|c| Json::s(c)).collect()))
        .set("events_observed", Json::i(rep.events as i64))
        .set("transfers_completed", Json::i(rep.completed as i64))
        .set("blocks_beyond_65535_observed", Json::i(rep.wraps as i64))
        .set("out_of_premise", Json::i(rep.out_of_premise as i64))
        .set("monitor_rule_hits", mapj(&rep.hits))
        .set("event_classes_seen", mapj(&rep.classes))
        .set("families", mapj(&rep.families))
        .set("violation_count", Json::i(rep.violation_count as i64))
        .set("violation_rules", mapj(&rep.violation_rules))
        .set("violations", Json::Arr(viols))
        .set("missing_required_classes", Json::Arr(missing))
        .set("inconclusive", Json::Arr(rep.inconclusive.iter().map(|s| Json::s(s)).collect()))
        .set("rule_text", Json::s(&plan.rule_text))
        .set("exhaustive_note", Json::s(&plan.exhaustive_note))
        .set("samples", Json::Arr(rep.samples.clone()));
    if id == "C13" && only.is_none() && shard.0 == 0 {
        j.put("history", Json::Arr(vharness::props::c13_history(seed)));
    }
    j
}
