//! Parallel execution of simulated cases and aggregation into a report.

use crate::monitors::{analyze, Analysis, Finding};
use crate::sim::{run_case, CaseSpec, Ev, Outcome, Pk, Role};
use crate::util::Json;
use std::collections::{BTreeMap, HashSet};
use std::path::{Path, PathBuf};
use std::sync::atomic::{AtomicUsize, Ordering};
use std::sync::{Arc, Mutex};

pub fn ev_json(ev: &Ev) -> Json {
    fn pk(p: &Pk) -> Json {
        match p {
            Pk::Data { blk, len, abs } => Json::obj().set("op", Json::s("DATA")).set("blk", Json::i(*blk)).set("len", Json::u(*len)).set("abs", Json::i(*abs as i64)),
            Pk::Ack(k) => Json::obj().set("op", Json::s("ACK")).set("blk", Json::i(*k)),
            Pk::Error(c) => Json::obj().set("op", Json::s("ERROR")).set("code", Json::i(*c)),
            Pk::Oack => Json::obj().set("op", Json::s("OACK")),
            Pk::Other(o) => Json::obj().set("op", Json::s("OTHER")).set("opcode", Json::i(*o)),
        }
    }
    match ev {
        Ev::Send { vt, pkt, file_len, file_prefix_ok } => {
            let mut j = pk(pkt).set("ev", Json::s("SEND")).set("vt_ns", Json::i(*vt as i64));
            if *file_len != -2 {
                j.put("file_len", Json::i(*file_len));
                j.put("file_is_prefix", Json::Bool(*file_prefix_ok));
            }
            j
        }
        Ev::RecvOk { vt, pkt, tag } => {
            let mut j = pk(pkt).set("ev", Json::s("RECV_OK")).set("vt_ns", Json::i(*vt as i64));
            if !tag.is_empty() {
                j.put("fault", Json::s(tag));
            }
            j
        }
        Ev::RecvTimeout { vt } => Json::obj().set("ev", Json::s("RECV_TIMEOUT")).set("vt_ns", Json::i(*vt as i64)),
        Ev::RecvJunk { vt, tag } => Json::obj().set("ev", Json::s("RECV_JUNK")).set("vt_ns", Json::i(*vt as i64)).set("fault", Json::s(tag)),
        Ev::Cap => Json::obj().set("ev", Json::s("CAP")),
    }
}

pub fn trace_json(log: &[Ev], around: Option<usize>, max: usize) -> Json {
    let (from, to) = if log.len() <= max {
        (0, log.len())
    } else if let Some(c) = around {
        let from = c.saturating_sub(max * 2 / 3).min(log.len() - max);
        (from, from + max)
    } else {
        (0, max)
    };
    let mut v: Vec<Json> = Vec::new();
    if from > 0 {
        v.push(Json::s(&format!("... {} earlier events omitted ...", from)));
    }
    for (i, e) in log[from..to].iter().enumerate() {
        v.push(ev_json(e).set("i", Json::u(from + i)));
    }
    if to < log.len() {
        v.push(Json::s(&format!("... {} later events omitted ...", log.len() - to)));
    }
    Json::Arr(v)
}

pub fn spec_json(s: &CaseSpec) -> Json {
    Json::obj()
        .set("label", Json::s(&s.label))
        .set("role", Json::s(if s.role == Role::Send { "worker-sends(download)" } else { "worker-receives(upload)" }))
        .set("blksize", Json::u(s.b))
        .set("windowsize", Json::i(s.w))
        .set("timeout_ns", Json::i(s.t_ns as i64))
        .set("read_timeout_ns", Json::i(s.read_timeout_ns as i64))
        .set("repeat", Json::i(s.repeat))
        .set("check_response", Json::Bool(s.check_response))
        .set("clean_on_error", Json::Bool(s.clean))
        .set("file_len", Json::i(s.len as i64))
        .set("blocks", Json::i(s.nblocks() as i64))
        .set("content_seed", Json::i(s.seed as i64))
        .set("peer", Json::s(&format!("{:?}", s.peer)))
        .set("rules", Json::Arr(s.rules.iter().map(|r| Json::s(&format!("{:?}", r))).collect()))
        .set("write_budget", match s.write_budget { Some(b) => Json::i(b as i64), None => Json::Null })
        .set("pre_existing_target_len", Json::i(s.pre_existing as i64))
}

pub struct Violation {
    pub case_index: usize,
    pub spec: CaseSpec,
    pub finding: Finding,
    pub trace: Json,
    pub end: String,
}

#[derive(Default)]
pub struct Report {
    pub evaluations: u64,
    pub nontrivial: u64,
    pub shapes: HashSet<u64>,
    pub hits: BTreeMap<String, u64>,
    pub classes: BTreeMap<String, u64>,
    pub families: BTreeMap<String, u64>,
    pub violations: Vec<Violation>,
    pub violation_count: u64,
    pub violation_rules: BTreeMap<String, u64>,
    pub out_of_premise: u64,
    pub inconclusive: Vec<String>,
    pub events: u64,
    pub completed: u64,
    pub wraps: u64,
    pub samples: Vec<Json>,
}

impl Report {
    pub fn merge(&mut self, o: Report) {
        self.evaluations += o.evaluations;
        self.nontrivial += o.nontrivial;
        self.shapes.extend(o.shapes);
        for (k, v) in o.hits {
            *self.hits.entry(k).or_insert(0) += v;
        }
        for (k, v) in o.classes {
            *self.classes.entry(k).or_insert(0) += v;
        }
        for (k, v) in o.families {
            *self.families.entry(k).or_insert(0) += v;
        }
        for (k, v) in o.violation_rules {
            *self.violation_rules.entry(k).or_insert(0) += v;
        }
        self.violation_count += o.violation_count;
        self.violations.extend(o.violations);
        self.violations.sort_by_key(|v| v.case_index);
        self.violations.truncate(40);
        self.out_of_premise += o.out_of_premise;
        self.inconclusive.extend(o.inconclusive);
        self.events += o.events;
        self.completed += o.completed;
        self.wraps += o.wraps;
        self.samples.extend(o.samples);
        self.samples.truncate(6);
    }
}

/// Verdict of a property-specific judge on one executed case.
pub struct Judged {
    pub findings: Vec<Finding>,
    pub out_of_premise: bool,
    pub inconclusive: Option<String>,
}

pub type Judge = dyn Fn(&CaseSpec, &Outcome, &Analysis) -> Judged + Send + Sync;

pub fn family_of(label: &str) -> String {
    label.split(':').next().unwrap_or("").to_string()
}

pub fn workdir() -> PathBuf {
    let base = if Path::new("/dev/shm").is_dir() { PathBuf::from("/dev/shm") } else { std::env::temp_dir() };
    let d = base.join(format!("vh-{}", std::process::id()));
    std::fs::create_dir_all(&d).expect("scratch dir");
    d
}

pub fn execute(cases: Arc<Vec<CaseSpec>>, threads: usize, judge: Arc<Judge>, only: Option<usize>, shard: (usize, usize)) -> Report {
    let dir = workdir();
    let next = Arc::new(AtomicUsize::new(0));
    let total = Arc::new(Mutex::new(Report::default()));
    let mut hs = Vec::new();
    for tid in 0..threads.max(1) {
        let cases = cases.clone();
        let next = next.clone();
        let total = total.clone();
        let judge = judge.clone();
        let dir = dir.clone();
        hs.push(std::thread::spawn(move || {
            let mut rep = Report::default();
            loop {
                let i = next.fetch_add(1, Ordering::SeqCst);
                if i >= cases.len() {
                    break;
                }
                if let Some(o) = only {
                    if o != i {
                        continue;
                    }
                } else if i % shard.1 != shard.0 {
                    continue;
                }
                let spec = &cases[i];
                let out = run_case(spec, &dir, ((tid as u64) << 40) | i as u64);
                let an = analyze(spec, &out);
                let j = (judge)(spec, &out, &an);
                rep.evaluations += 1;
                rep.events += out.log.len() as u64;
                *rep.families.entry(family_of(&spec.label)).or_insert(0) += 1;
                if an.completed {
                    rep.completed += 1;
                }
                rep.wraps += an.wraps;
                for (k, v) in &an.hits {
                    *rep.hits.entry(k.to_string()).or_insert(0) += v;
                }
                for (k, v) in &an.classes {
                    *rep.classes.entry(k.to_string()).or_insert(0) += v;
                }
                let nontrivial = out.rules_fired > 0 || spec.hostile() || spec.repeat > 1 || an.wraps > 0;
                if nontrivial {
                    rep.nontrivial += 1;
                    let cfgclass = (spec.role as u64) << 60 ^ (spec.w as u64) << 40 ^ (spec.b as u64) << 20 ^ (spec.repeat as u64) << 8 ^ spec.check_response as u64;
                    rep.shapes.insert(an.shape ^ crate::util::mix64(cfgclass));
                    if rep.samples.len() < 2 && tid < 3 {
                        rep.samples.push(
                            Json::obj()
                                .set("case_index", Json::u(i))
                                .set("spec", spec_json(spec))
                                .set("end", Json::s(&format!("{:?}", out.end)))
                                .set("peer_final_state", Json::s(&format!("{:?}", out.peer)))
                                .set("trace", trace_json(&out.log, None, 40)),
                        );
                    }
                }
                if j.out_of_premise {
                    rep.out_of_premise += 1;
                }
                if let Some(why) = j.inconclusive {
                    if rep.inconclusive.len() < 20 {
                        rep.inconclusive.push(format!("case {} ({}): {}", i, spec.label, why));
                    }
                }
                for f in j.findings {
                    rep.violation_count += 1;
                    *rep.violation_rules.entry(f.rule.to_string()).or_insert(0) += 1;
                    if rep.violations.len() < 40 {
                        rep.violations.push(Violation {
                            case_index: i,
                            spec: spec.clone(),
                            trace: trace_json(&out.log, Some(f.at), 80),
                            finding: f,
                            end: format!("{:?} peer={:?}", out.end, out.peer),
                        });
                    }
                }
            }
            total.lock().unwrap().merge(rep);
        }));
    }
    for h in hs {
        let _ = h.join();
    }
    let _ = std::fs::remove_dir_all(&dir);
    let mut t = total.lock().unwrap();
    std::mem::take(&mut *t)
}

/// Runs baselines (fault-free) for a list of configurations in parallel.
pub fn baselines(specs: Vec<CaseSpec>, threads: usize) -> Vec<(CaseSpec, Outcome)> {
    let dir = workdir();
    let specs = Arc::new(specs);
    let next = Arc::new(AtomicUsize::new(0));
    let results: Arc<Mutex<Vec<(usize, Outcome)>>> = Arc::new(Mutex::new(Vec::new()));
    let mut hs = Vec::new();
    for tid in 0..threads.max(1) {
        let specs = specs.clone();
        let next = next.clone();
        let results = results.clone();
        let dir = dir.clone();
        hs.push(std::thread::spawn(move || loop {
            let i = next.fetch_add(1, Ordering::SeqCst);
            if i >= specs.len() {
                break;
            }
            let out = run_case(&specs[i], &dir, (1 << 60) | ((tid as u64) << 40) | i as u64);
            results.lock().unwrap().push((i, out));
        }));
    }
    for h in hs {
        let _ = h.join();
    }
    let mut r = std::mem::take(&mut *results.lock().unwrap());
    r.sort_by_key(|x| x.0);
    r.into_iter().map(|(i, o)| (specs[i].clone(), o)).collect()
}
