#![no_main]
//! Coverage-guided workload generator for C10: every input goes through the same oracle as `vh pure C10`.
use libfuzzer_sys::fuzz_target;

fuzz_target!(|data: &[u8]| {
    if let Some(why) = vharness::pure::judge_one(data) {
        panic!("C10 oracle: {why}");
    }
});
