#!/usr/bin/env python3
"""Confirms a seeded change delivered by a sub-agent: applies patch.diff to a fresh worktree, checks that the
pinned tests stay green, runs the demonstration with and without the change, then runs the named quick checks.
usage: confirm_seed.py <ID> <seed-output-dir> <agent-worktree> [check ids...]"""
import json
import os
import subprocess
import sys


def sh(cmd, **kw):
    if isinstance(cmd, str):
        cmd = ["bash", "-c", cmd]
    return subprocess.run(cmd, stdout=subprocess.PIPE, stderr=subprocess.STDOUT, text=True, **kw)


def main():
    pid, out, agent_wt = sys.argv[1:4]
    checks = sys.argv[4:] or [pid]
    meta = json.load(open(os.path.join(out, "meta.json")))
    tree = f"/tmp/vs2_{pid}"
    clean = "/tmp/vs2_clean"
    sh(f"git -C /repo worktree remove --force {tree}")
    r = sh(f"git -C /repo worktree add -q --detach {tree} HEAD && git -C {tree} apply {out}/patch.diff")
    if r.returncode:
        print("APPLY FAILED", r.stdout)
        return 1
    if not os.path.isdir(clean):
        sh(f"git -C /repo worktree add -q --detach {clean} HEAD")
    res = {"id": pid}
    for t in (tree, clean):
        sh("cargo build --offline --features client", cwd=t)
    ok = False
    for _ in range(3):
        t = sh("cargo test --offline", cwd=tree)
        if t.returncode == 0:
            ok = True
            break
    res["tests_green_with_change"] = ok
    cmd = meta["demo_cmd"]
    for label, t in (("with", tree), ("without", clean)):
        c = cmd.replace(agent_wt, t).replace("<tree>", t).replace("<TREE>", t).replace("$TREE", t).replace("<worktree>", t)
        r = sh(c, cwd=t, timeout=1800)
        tail = [l for l in r.stdout.strip().splitlines() if l.strip()][-3:]
        res[f"demo_{label}"] = {"exit": r.returncode, "tail": tail}
        sh("git clean -fdq tests", cwd=t)
    res["checks"] = {}
    for c in checks:
        r = sh(["/verif/check", c, "--tier", "quick"], cwd="/verif", env=dict(os.environ, VERIF_REPO=tree))
        lines = r.stdout.splitlines()
        first = next((lines[i + 1].strip() for i, l in enumerate(lines) if l.startswith("VIOLATION") and i + 1 < len(lines)), lines[-1] if lines else "")
        res["checks"][c] = {"exit": r.returncode, "first": first[:260]}
    print(json.dumps(res, indent=1))
    return 0


if __name__ == "__main__":
    sys.exit(main())
