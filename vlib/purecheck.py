"""E3 driver: runs `vh pure <ID>` for each build flavour and turns the report into a verdict."""
import json
import os
import subprocess

from . import common as C


def check(pid, tier):
    v = C.Verdict(pid, tier, "exploration")
    wd = C.fresh_workdir(f"pure-{pid}")
    total = 0
    distinct = 0
    classes = {}
    samples = []
    builds = {}
    info = {}
    for fl in ("release", "checked"):
        try:
            vh = C.build_harness(fl)
        except C.BuildError as e:
            v.note_inconclusive(str(e))
            continue
        out = os.path.join(wd, f"{pid}-{fl}.json")
        with open(os.path.join(wd, f"{pid}-{fl}.log"), "wb") as log:
            try:
                rc = subprocess.run([vh, "pure", pid, "--tier", tier, "--seed", str(C.seed()), "--threads", str(C.NCPU), "--out", out],
                                    stdout=log, stderr=log, cwd=wd, timeout=3600 if tier == "thorough" else 600,
                                    # the environment says the process is somewhere else than it is (a stale PWD, a HOME):
                                    # defaults are documented relative to the real working directory
                                    env=dict(os.environ, PWD=C.VERIF, OLDPWD="/", HOME=os.path.dirname(wd), TMPDIR=wd)).returncode
            except subprocess.TimeoutExpired:
                v.note_inconclusive(f"[{fl}] harness hit the wall-clock watchdog")
                continue
        if rc != 0 or not os.path.exists(out):
            v.note_inconclusive(f"[{fl}] harness exited {rc} without a report (see {wd})")
            continue
        with open(out) as f:
            r = json.load(f)
        info = r
        total += r["evaluations"]
        distinct = max(distinct, r["distinct_nontrivial"])
        builds[fl] = {"evaluations": r["evaluations"], "nontrivial": r["nontrivial"], "distinct_nontrivial": r["distinct_nontrivial"], "violation_count": r["violation_count"], "wall_s": r.get("wall_s")}
        for k, n in r["event_classes_seen"].items():
            classes[k] = classes.get(k, 0) + n
        if not samples:
            samples = r["samples"][:4]
        for viol in r["violations"]:
            v.violation(viol["signature"], f"[{fl}] {viol['detail']}", {"engine": "pure", "property": pid, "tier": tier, "seed": C.seed(), "flavor": fl, "input": viol["input"], "detail": viol["detail"]})
        if r["evaluations"] == 0 or r["nontrivial"] == 0:
            v.note_inconclusive(f"[{fl}] the harness observed nothing")
    if tier == "thorough":
        miri = miri_slice(pid, wd)
        builds["miri"] = miri
        if miri.get("status") == "ub-or-failure":
            v.violation(f"{pid}/miri", "Miri reported undefined behaviour or a failing oracle: " + miri.get("tail", "")[-600:], {"engine": "miri", "log": miri.get("log")})
        elif miri.get("status") != "clean":
            v.note_inconclusive("Miri slice did not run to completion: " + str(miri.get("status")))
    if tier == "thorough" and pid == "C10":
        fz = fuzz_slice(pid, v, wd, 180)
        builds["libfuzzer"] = fz
        if fz.get("status") != "ran":
            v.note_inconclusive("coverage-guided fuzz slice did not run: " + str(fz))
        else:
            total += fz["executions"]
    cov = {
        "evaluations": total,
        "distinct_nontrivial": distinct,
        "rule": info.get("rule_text", ""),
        "samples": samples or [{"note": "no sample recorded"}],
        "exhaustive": False,
        "exhaustive_subspaces": info.get("exhaustive_note"),
        "event_classes_seen": classes,
        "builds": builds,
    }
    return v.finish(cov, ["the reference models (harness/src/wire.rs, pure_window.rs, pure_config.rs) are the trusted base, written from the RFCs / README, not from the code under test",
                          "checked build = release + overflow-checks + debug-assertions; release = what cargo install ships"])


def miri_slice(pid, wd):
    """Runs a small slice of the same harness under Miri (UB / data-race / leak interpreter)."""
    tdir = os.path.join(C.TARGET, "miri" + C.repo_tag())
    env = C.cargo_env({"CARGO_TARGET_DIR": tdir, "MIRIFLAGS": "-Zmiri-disable-isolation -Zmiri-no-short-fd-operations"})
    cmd = ["cargo", "+nightly", "miri", "run", "--offline", "--bin", "vh"]
    if C.REPO != "/repo":
        cmd += ["--config", f'paths=["{C.REPO}"]']
    out = os.path.join(wd, f"{pid}-miri.json")
    cmd += ["--", "miri", pid, "--seed", str(C.seed()), "--out", out]
    log = os.path.join(wd, f"{pid}-miri.log")
    try:
        with open(log, "wb") as lf:
            rc = subprocess.run(cmd, env=env, cwd=os.path.join(C.VERIF, "harness"), stdout=lf, stderr=lf, timeout=1500).returncode
    except subprocess.TimeoutExpired:
        return {"status": "watchdog", "log": log}
    tail = open(log, errors="replace").read()[-3000:]
    if rc == 0 and os.path.exists(out):
        r = json.load(open(out))
        return {"status": "clean" if r.get("violation_count", 0) == 0 else "ub-or-failure", "evaluations": r.get("evaluations"), "log": log, "tail": json.dumps(r.get("violations", []))[:600]}
    if "Undefined Behavior" in tail or "data race" in tail.lower():
        return {"status": "ub-or-failure", "log": log, "tail": tail}
    return {"status": f"exit {rc}", "log": log, "tail": tail}


def fuzz_slice(pid, v, wd, seconds):
    """Coverage-guided workload generation (libFuzzer via cargo-fuzz) for the decoder: every execution goes through the
    same C10 oracle; crashes are re-judged with `vh judge` and reported with the oracle's own signature."""
    import re
    import shutil
    src = os.path.join(C.VERIF, "harness")
    copy = os.path.join(wd, "fuzzcrate")
    shutil.rmtree(copy, ignore_errors=True)
    shutil.copytree(src, copy, ignore=shutil.ignore_patterns("target", "corpus", "artifacts", "Cargo.lock"))
    if C.REPO != "/repo":
        ct = os.path.join(copy, "Cargo.toml")
        s = open(ct).read().replace('path = "/repo"', f'path = "{C.REPO}"')
        open(ct, "w").write(s)
    tdir = os.path.join(C.TARGET, "fuzz" + C.repo_tag())
    env = C.cargo_env({"CARGO_TARGET_DIR": tdir})
    corpus = os.path.join(wd, "corpus")
    arts = os.path.join(wd, "artifacts")
    os.makedirs(arts, exist_ok=True)
    vh = C.build_harness("release")
    subprocess.run([vh, "corpus", corpus], check=False)
    b = subprocess.run(["cargo", "+nightly", "fuzz", "build", "decode"], env=env, cwd=copy, stdout=subprocess.PIPE, stderr=subprocess.STDOUT, text=True)
    if b.returncode != 0:
        return {"status": "build-failed", "tail": b.stdout[-400:]}
    cmd = ["cargo", "+nightly", "fuzz", "run", "decode", corpus, "--", f"-max_total_time={seconds}", "-timeout=10", "-max_len=700", f"-fork={C.NCPU}",
           "-ignore_crashes=1", f"-artifact_prefix={arts}/", f"-seed={C.seed()}"]
    try:
        r = subprocess.run(cmd, env=env, cwd=copy, stdout=subprocess.PIPE, stderr=subprocess.STDOUT, text=True, timeout=seconds + 300)
    except subprocess.TimeoutExpired:
        return {"status": "watchdog"}
    execs = [int(m.group(1)) for m in re.finditer(r"^#(\d+):", r.stdout, re.M)]
    covs = [int(m.group(1)) for m in re.finditer(r"cov: (\d+)", r.stdout)]
    found = sorted(os.listdir(arts))
    info = {"status": "ran", "executions": max(execs) if execs else 0, "coverage_edges": max(covs) if covs else 0, "crash_artifacts": len(found), "seconds": seconds}
    if found:
        j = subprocess.run([vh, "judge"] + [os.path.join(arts, f) for f in found[:50]], stdout=subprocess.PIPE, text=True)
        for line in j.stdout.splitlines():
            try:
                rec = json.loads(line)
            except ValueError:
                continue
            if rec.get("violation"):
                viol = rec["violation"]
                v.violation(viol.get("signature", f"{pid}/fuzz"), f"[fuzz] {viol.get('detail')}", {"engine": "fuzz", "artifact": rec["file"], "input": viol.get("input")})
        shutil.copytree(arts, os.path.join(C.REPLAYS, f"{pid}-fuzz-artifacts"), dirs_exist_ok=True)
    if not execs:
        info["status"] = "no-executions"
        info["tail"] = r.stdout[-300:]
    return info
