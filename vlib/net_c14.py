"""C14 — the bundled client (tftpc) against the bundled server (tftpd), byte-exact for every option choice."""
import concurrent.futures
import os
import shutil
import subprocess
import time

from . import common as C
from . import net as N
from .netcommon import Ctx, write


def inflight_ok(b, w, nblocks):
    truesize = max(768, ((b + 4 + 320 + 255) // 256) * 256)
    return min(w, nblocks) * truesize <= 100_000


def gen_cases(rng, thorough):
    cases = []
    bs = [8, 512, 1428, 65464]
    ws = [1, 2, 16, 64, 65535]
    ts = [1, 5, 255]
    for b in bs:
        for w in ws:
            sizes = {0, 1, b - 1, b, b + 1, w * b if w < 100 else 3 * b, (w * b if w < 100 else 3 * b) + 1}
            for size in sorted(sizes):
                if size > 4_000_000:
                    continue
                n = size // b + 1
                if not inflight_ok(b, w, n):
                    continue
                cases.append({"b": b, "w": w, "size": size})
    # beyond 65535 blocks (blksize 8)
    for size, w in ((65535 * 8, 1), (65536 * 8 + 3, 16), (65534 * 8 + 5, 64)):
        cases.append({"b": 8, "w": w, "size": size, "wrap": True})
    out = []
    for c in cases:
        variants = []
        for direction in ("download", "upload"):
            for single in (False, True):
                for ip in ("127.0.0.1", "::1"):
                    for style in ("plain", "nested", "windows", "mixed-a", "mixed-b"):
                        variants.append((direction, single, ip, style))
        if thorough and not c.get("wrap"):
            chosen = variants
        else:
            chosen = rng.sample(variants, 3 if not c.get("wrap") else 2)
        for (direction, single, ip, style) in chosen:
            d = dict(c)
            d.update({"dir": direction, "single": single, "ip": ip, "style": style, "t": rng.choice(ts)})
            out.append(d)
    if not thorough:
        rng.shuffle(out)
        wraps = [c for c in out if c.get("wrap")][:3]
        out = [c for c in out if not c.get("wrap")][:260] + wraps
    return out


class Pair:
    """one server (per port mode / ip) reused by many client runs"""

    def __init__(self, ctx, tftpd, single, ip, **kw):
        self.sb = ctx.sandbox("c14")
        self.cli = os.path.join(self.sb["root"], "client")
        os.makedirs(os.path.join(self.cli, "dl"), exist_ok=True)
        self.srv = N.Server(tftpd, self.sb["srv"], single=single, ip=ip, logdir=self.sb["logs"], **kw).start()


def run_client(tftpc, cwd, args, timeout=120):
    t0 = time.time()
    try:
        p = subprocess.run([tftpc] + args, cwd=cwd, stdout=subprocess.PIPE, stderr=subprocess.PIPE, timeout=timeout)
        return p.returncode, p.stdout.decode("utf-8", "replace"), p.stderr.decode("utf-8", "replace"), time.time() - t0
    except subprocess.TimeoutExpired as e:
        return None, "", "watchdog", time.time() - t0


def one_case(v, pair, tftpc, c, idx, serial=False):
    srv, sb, cli = pair.srv, pair.sb, pair.cli
    kind = {5: "zeros", 6: "sparse", 12: "ones"}.get(idx % 13)
    content = N.degenerate_content(f"c14-{idx}", c["size"], kind) if kind else N.keyed_content(f"c14-{idx}", c["size"])
    base = f"f{idx}.bin"
    if idx % 5 == 3:
        base = f"f {idx} sp\u00e4ce \u6587.bin"   # legal but unusual: space and non-ASCII letters
    elif idx % 11 == 7:
        base = f"k:f{idx}.bin"                     # looks like a drive letter; an ordinary name here
    elif idx % 11 == 9:
        base = f"f{idx}.tar.gz"
    common = ["-i", c["ip"], "-p", str(srv.port), "-b", str(c["b"]), "-w", str(c["w"]), "-t", str(c["t"])]
    drops0 = N.udp_counters()
    replay = {"engine": "net", "case": c, "server_args": srv.args}
    problems = []
    if c["dir"] == "download":
        rel = {"plain": base, "nested": f"nest/deep/{base}", "windows": f"nest\\deep\\{base}", "mixed-a": f"nest/deep\\{base}", "mixed-b": f"nest\\deep/{base}"}[c["style"]]
        write(os.path.join(sb["srv"], rel.replace("\\", "/")), content)
        before_c, before_s = N.snapshot(cli), N.snapshot(sb["srv"])
        rc, out, err, dt = run_client(tftpc, cli, [rel, "-d", "-rd", "dl"] + common)
        after_c, after_s = N.snapshot(cli), N.snapshot(sb["srv"])
        target = os.path.join(cli, "dl", base)
        got = open(target, "rb").read() if os.path.exists(target) else None
        if got != content:
            problems.append(f"download stored {None if got is None else len(got)} bytes at dl/{base}, expected the {len(content)}-byte file (rc={rc}, stderr={err[-200:]!r})")
        other = [d for d in N.snap_diff(before_c, after_c) if d[0] != f"dl/{base}"]
        if other:
            problems.append(f"client side: unexpected changes {other[:3]}")
        if N.snap_diff(before_s, after_s):
            problems.append(f"server side changed during a download: {N.snap_diff(before_s, after_s)[:3]}")
        try:
            os.unlink(target)
        except OSError:
            pass
    else:
        rel = {"plain": base, "nested": f"up/sub/{base}", "windows": f"up\\sub\\{base}", "mixed-a": f"up/sub\\{base}", "mixed-b": f"up\\sub/{base}"}[c["style"]]
        write(os.path.join(cli, rel.replace("\\", "/")), content)
        before_c, before_s = N.snapshot(cli), N.snapshot(sb["srv"])
        rc, out, err, dt = run_client(tftpc, cli, [rel, "-u"] + common)
        time.sleep(0.02)
        after_c, after_s = N.snapshot(cli), N.snapshot(sb["srv"])
        target = os.path.join(sb["srv"], base)
        got = open(target, "rb").read() if os.path.exists(target) else None
        if got != content:
            problems.append(f"upload stored {None if got is None else len(got)} bytes as {base} in the receive directory, expected {len(content)} (rc={rc}, stderr={err[-200:]!r})")
        other = [d for d in N.snap_diff(before_s, after_s) if d[0] != base]
        if other:
            problems.append(f"server side: unexpected changes {other[:3]}")
        if N.snap_diff(before_c, after_c):
            problems.append(f"client side changed during an upload: {N.snap_diff(before_c, after_c)[:3]}")
        try:
            os.unlink(target)
        except OSError:
            pass
    drops1 = N.udp_counters()
    dropped = (drops1[0] - drops0[0]) + (drops1[1] - drops0[1])
    return problems, dropped, replay, rc, err


def refusals(v, ctx, bins, classes):
    """ERROR 1 / 2 / 6: the client creates no file and reports the error"""
    n = 0
    tftpd, tftpc = bins["tftpd"], bins["tftpc"]
    for single in (False, True):
        for kind in ("missing", "read-only", "exists", "missing+keep", "exists+keep", "escaping+keep"):
            n += 1
            keep = kind.endswith("+keep")          # the client's own --keep-on-error: a refusal still creates no file
            kind = kind.split("+")[0]
            pair = Pair(ctx, tftpd, single, "127.0.0.1", read_only=(kind == "read-only"))
            try:
                common = ["-i", "127.0.0.1", "-p", str(pair.srv.port), "-b", "512", "-w", "2", "-t", "1"] + (["--keep-on-error"] if keep else [])
                if kind == "escaping":
                    before = N.snapshot(pair.cli)
                    rc, out, err, dt = run_client(tftpc, pair.cli, ["../outside/canary.bin", "-d", "-rd", "dl"] + common, timeout=20)
                    diff = N.snap_diff(before, N.snapshot(pair.cli))
                    code = "Access Violation"
                    kind = "escaping"
                elif kind == "missing":
                    before = N.snapshot(pair.cli)
                    rc, out, err, dt = run_client(tftpc, pair.cli, ["nope.bin", "-d", "-rd", "dl"] + common, timeout=20)
                    diff = N.snap_diff(before, N.snapshot(pair.cli))
                    code = "File Not Found"
                elif False:
                    pass
                else:
                    write(os.path.join(pair.cli, "u.bin"), b"client data")
                    if kind == "exists":
                        write(os.path.join(pair.sb["srv"], "u.bin"), b"server data that must stay")
                    before = N.snapshot(pair.sb["srv"])
                    rc, out, err, dt = run_client(tftpc, pair.cli, ["u.bin", "-u"] + common, timeout=20)
                    diff = N.snap_diff(before, N.snapshot(pair.sb["srv"]))
                    code = "Access Violation" if kind == "read-only" else "File Exists"
                if keep:
                    kind += "+keep-on-error"
                replay = {"engine": "net", "refusal": kind, "single": single, "stderr": err[-300:], "stdout": out[-200:], "rc": rc}
                if rc is None:
                    v.note_inconclusive(f"refusal {kind}: client hit the watchdog")
                    continue
                if diff:
                    v.violation(f"C14/refusal-creates-file/{kind}", f"refusal {kind} (single={single}): files changed: {diff[:3]}", replay)
                if code.lower() not in (err + out).lower() and "error" not in err.lower():
                    v.violation(f"C14/refusal-not-reported/{kind}", f"refusal {kind} (single={single}): client output does not report the error: stderr={err[-200:]!r}", replay)
                classes[f"refusal:{kind}"] = classes.get(f"refusal:{kind}", 0) + 1
            finally:
                pair.srv.stop()
    return n


def onto_existing(v, ctx, bins, classes):
    """the target already exists and is LONGER than what is transferred: nothing of the old file may survive"""
    n = 0
    for single in (False, True):
        pair = Pair(ctx, bins["tftpd"], single, "127.0.0.1", overwrite=True)
        try:
            srv, sb, cli = pair.srv, pair.sb, pair.cli
            common = ["-i", "127.0.0.1", "-p", str(srv.port), "-t", "2"]
            for bsz, w, old_len, new_len in ((512, 1, 3000, 1000), (1428, 4, 20000, 1428 * 4), (8, 16, 500, 0), (512, 2, 5000, 4999)):
                for kind in ("download", "upload"):
                    n += 1
                    name = f"ex_{kind}_{bsz}_{new_len}.bin"
                    new = N.keyed_content(f"new-{name}-{single}", new_len)
                    old = N.keyed_content(f"old-{name}-{single}", old_len)
                    if kind == "download":
                        write(os.path.join(sb["srv"], name), new)
                        write(os.path.join(cli, "dl", name), old)
                        rc, out, err, dt = run_client(bins["tftpc"], cli, [name, "-d", "-rd", "dl", "-b", str(bsz), "-w", str(w)] + common)
                        tgt = os.path.join(cli, "dl", name)
                    else:
                        write(os.path.join(cli, name), new)
                        write(os.path.join(sb["srv"], name), old)
                        rc, out, err, dt = run_client(bins["tftpc"], cli, [name, "-u", "-b", str(bsz), "-w", str(w)] + common)
                        time.sleep(0.05)
                        tgt = os.path.join(sb["srv"], name)
                    got = open(tgt, "rb").read() if os.path.exists(tgt) else None
                    if got != new:
                        v.violation(f"C14/onto-existing/{kind}", f"{'single' if single else 'multi'}-port {kind} of {new_len} bytes onto an existing {old_len}-byte file left {None if got is None else len(got)} bytes (blksize {bsz}, windowsize {w}); stderr {err[-120:]!r}",
                                    {"engine": "net", "kind": kind, "single_port": single, "old_len": old_len, "new_len": new_len, "blksize": bsz, "windowsize": w})
                    classes["onto-existing-longer"] = classes.get("onto-existing-longer", 0) + 1
        finally:
            pair.srv.stop()
    return n


def concurrent_pairs(v, ctx, bins, classes):
    """two bundled clients with different option choices on ONE server at the same time (both port modes)"""
    import threading
    n = 0
    for single in (False, True):
        pair = Pair(ctx, bins["tftpd"], single, "127.0.0.1")
        try:
            srv, sb, cli = pair.srv, pair.sb, pair.cli
            # the first transfer is long enough (hundreds of ms) for the second client to arrive in its middle
            combos = [(("upload", 1428, 1, 12_000_000), ("download", 512, 1, 3000)), (("upload", 1024, 1, 8_000_000), ("upload", 512, 2, 5000)),
                      (("download", 8192, 1, 40_000_000), ("upload", 8, 16, 2000)), (("upload", 65464, 1, 60_000_000), ("download", 512, 1, 700)),
                      # same directory, same stem, different extension (and a name without extension)
                      (("upload", 1428, 1, 12_000_000, "fw.bin"), ("upload", 512, 2, 5000, "fw.sig")),
                      (("download", 8192, 1, 40_000_000, "img.tar.gz"), ("download", 512, 1, 3000, "img.tar.xz")),
                      (("upload", 1024, 1, 8_000_000, "boot"), ("upload", 512, 1, 700, "boot.cfg"))]
            for ci, (a, b) in enumerate(combos):
                n += 1
                results = {}

                prepared = {}
                for tag, spec in (("a", a), ("b", b)):
                    kind, bsz, w, size = spec[:4]
                    content = os.urandom(size) if size > 1_000_000 else N.keyed_content(f"cc-{single}-{ci}-{tag}", size)
                    name = spec[4] if len(spec) > 4 else f"cc{ci}{tag}.bin"
                    write(os.path.join(cli if kind == "upload" else sb["srv"], name), content)
                    prepared[tag] = (content, name)

                def go(tag, spec):
                    t_start = time.time()
                    kind, bsz, w, size = spec[:4]
                    content, name = prepared[tag]
                    common = ["-i", "127.0.0.1", "-p", str(srv.port), "-b", str(bsz), "-w", str(w), "-t", "2"]
                    if kind == "upload":
                        rc, out, err, dt = run_client(bins["tftpc"], cli, [name, "-u"] + common)
                        time.sleep(0.05)
                        tgt = os.path.join(sb["srv"], name)
                    else:
                        rc, out, err, dt = run_client(bins["tftpc"], cli, [name, "-d", "-rd", "dl"] + common)
                        tgt = os.path.join(cli, "dl", name)
                    got = open(tgt, "rb").read() if os.path.exists(tgt) else None
                    results[tag] = (spec, got == content, None if got is None else len(got), len(content), err[-160:], t_start, dt)

                ta = threading.Thread(target=go, args=("a", a))
                tb = threading.Thread(target=go, args=("b", b))
                d0 = N.udp_counters()
                ta.start()
                time.sleep(0.08)   # the second client arrives while the first (longer) transfer is running
                tb.start()
                ta.join()
                tb.join()
                d1 = N.udp_counters()
                dropped = (d1[0] - d0[0]) + (d1[1] - d0[1])
                # b started after a started and before a ended
                overlap = results["a"][5] < results["b"][5] < results["a"][5] + results["a"][6]
                classes["concurrent-pair-overlapped"] = classes.get("concurrent-pair-overlapped", 0) + (1 if overlap else 0)
                for tag, (spec, ok, gotlen, wantlen, err, _t, _dt) in results.items():
                    if not ok and dropped == 0:
                        v.violation(f"C14/concurrent/{spec[0]}", f"{'single' if single else 'multi'}-port: two tftpc clients at once {a} + {b}: {spec} ended with {gotlen} of {wantlen} bytes (stderr {err!r})",
                                    {"engine": "net", "single_port": single, "clients": [a, b], "failed": spec})
                    elif not ok:
                        v.note_inconclusive(f"concurrent pair {a}+{b}: kernel dropped {dropped} datagram(s)")
                classes["concurrent-pair"] = classes.get("concurrent-pair", 0) + 1
        finally:
            pair.srv.stop()
    return n


def run(tier):
    v = C.Verdict("C14", tier, "exploration")
    thorough = tier == "thorough"
    ctx = Ctx("C14", tier)
    bins = ctx.bins["release"]
    cases = gen_cases(ctx.rng, thorough)
    pairs = {}
    evaluations = 0
    distinct = set()
    classes = {}
    samples = []
    try:
        for single in (False, True):
            for ip in ("127.0.0.1", "::1"):
                try:
                    pairs[(single, ip)] = [Pair(ctx, bins["tftpd"], single, ip) for _ in range(2)]
                except Exception as e:  # IPv6 loopback may be unavailable
                    v.note_inconclusive(f"could not start server on {ip}: {e}")
        # low parallelism: the kernel drop counter is system-wide
        failed_so_far = [0]

        def work(ic):
            i, c = ic
            pl = pairs.get((c["single"], c["ip"]))
            if not pl or failed_so_far[0] >= 12:
                # a tree on which a dozen transfers have already failed is not driven through the remaining cases
                return i, c, None
            r = one_case(v, pl[i % 2], bins["tftpc"], c, i)
            if r[0]:
                failed_so_far[0] += 1
            return i, c, r

        todo = list(enumerate(cases))
        lanes = [[x for x in todo if x[0] % 2 == k] for k in range(2)]
        results = []
        with concurrent.futures.ThreadPoolExecutor(max_workers=2) as ex:
            for lane_res in ex.map(lambda lane: [work(x) for x in lane], lanes):
                results.extend(lane_res)
        reruns = 0
        for i, c, res in results:
            if res is None:
                continue
            evaluations += 1
            problems, dropped, replay, rc, err = res
            if problems:
                reruns += 1
                if reruns > 12 and v.enough(12):
                    continue
            if problems and dropped == 0:
                # rerun serially once: a failure must be reproducible without kernel drops (the rerun index keeps the
                # residues that select file name and content class: 100100 = 140 x 5 x 11 x 13)
                problems2, dropped2, replay2, rc2, err2 = one_case(v, pairs[(c["single"], c["ip"])][0], bins["tftpc"], c, 100100 + i)
                if problems2 and dropped2 == 0:
                    for p in problems2:
                        v.violation(f"C14/{c['dir']}/{'content' if 'stored' in p else 'side-effect'}", f"tftpc {c}: {p}", replay2)
                elif problems2:
                    v.note_inconclusive(f"case {c}: failed with kernel receive-buffer drops ({dropped2}) on the serial rerun")
                else:
                    v.note_inconclusive(f"case {c}: failed once ({problems[0][:120]}), passed on the serial rerun")
            elif problems:
                problems2, dropped2, replay2, rc2, err2 = one_case(v, pairs[(c["single"], c["ip"])][0], bins["tftpc"], c, 200200 + i)
                if problems2 and dropped2 == 0:
                    for p in problems2:
                        v.violation(f"C14/{c['dir']}/{'content' if 'stored' in p else 'side-effect'}", f"tftpc {c}: {p}", replay2)
                elif problems2:
                    v.note_inconclusive(f"case {c}: kernel dropped {dropped2} datagram(s) (RcvbufErrors/InErrors) - not the fault-free regime")
            distinct.add((c["b"], c["w"], c["size"], c["dir"], c["single"], c["ip"], c["style"], c["t"]))
            key = f"{c['dir']}:{'single' if c['single'] else 'multi'}:{'v6' if ':' in c['ip'] else 'v4'}:{c['style']}"
            classes[key] = classes.get(key, 0) + 1
            if c.get("wrap"):
                classes["beyond-65535-blocks"] = classes.get("beyond-65535-blocks", 0) + 1
            if len(samples) < 4:
                samples.append({"case": c, "result": "byte-identical" if not problems else problems})
    finally:
        for pl in pairs.values():
            for p in pl:
                p.srv.stop()
    evaluations += onto_existing(v, ctx, bins, classes)
    evaluations += concurrent_pairs(v, ctx, bins, classes)
    if classes.get("concurrent-pair-overlapped", 0) == 0:
        v.note_inconclusive("no concurrent client pair actually overlapped in time")
    evaluations += refusals(v, ctx, bins, classes)
    # scratch hygiene: the large transfer files are not needed once the verdict is in
    for dp, _, fns in os.walk(ctx.wd):
        for fn in fns:
            fp = os.path.join(dp, fn)
            try:
                if os.path.getsize(fp) > 1_000_000:
                    os.unlink(fp)
            except OSError:
                pass
    cov = {"evaluations": evaluations, "distinct_nontrivial": len(distinct),
           "rule": "the real tftpc binary is run against the real tftpd binary on loopback for sizes {0,1,b-1,b,b+1,wb,wb+1, >65535 blocks at b=8} x blksize {8,512,1428,65464} x windowsize {1,2,16,64,65535} x timeout {1,5,255} x {single,multi} port x {127.0.0.1, ::1} x {download, upload} x {plain, nested, Windows-style path} (seeded sample in quick, full product in thorough), restricted to the loss-free envelope (in-flight datagram truesize <= 100 kB; kernel Udp RcvbufErrors/InErrors sampled around every case). After tftpc exits both trees are snapshotted: only <-rd>/<basename> (download) or <receive dir>/<basename> (upload) may appear and must equal the source. Refusals (ERROR 1, 2, 6): no file changes, error text on the client's output. distinct = distinct parameter tuples.",
           "samples": samples, "exhaustive": False, "classes": classes}
    return v.finish(cov, ["fault-free regime only: cases with kernel receive-buffer drops are rerun and otherwise inconclusive", "release builds, hooks off"])
