"""E1 driver: runs `vh sim <ID>` sharded over processes for each build flavour and merges the reports."""
import json
import os
import subprocess
import time

from . import common as C

LEVEL = {"C01": "fault_enumeration", "C02": "fault_enumeration", "C04": "fault_enumeration", "C07": "fault_enumeration",
         "C08": "fault_enumeration", "C13": "fault_enumeration", "C15": "fault_enumeration", "C16": "exploration"}

SUM_KEYS = ["evaluations", "nontrivial", "events_observed", "transfers_completed", "blocks_beyond_65535_observed", "out_of_premise", "violation_count"]
MAP_KEYS = ["monitor_rule_hits", "event_classes_seen", "families", "violation_rules"]


def run_flavor(pid, tier, flavor, shards, wd, watchdog_s):
    vh = C.build_harness(flavor)
    procs = []
    for i in range(shards):
        out = os.path.join(wd, f"{pid}-{flavor}-{i}.json")
        log = open(os.path.join(wd, f"{pid}-{flavor}-{i}.log"), "wb")
        cmd = [vh, "sim", pid, "--tier", tier, "--seed", str(C.seed()), "--threads", "1", "--shard", f"{i}/{shards}", "--out", out]
        procs.append((subprocess.Popen(cmd, stdout=log, stderr=log, cwd=wd), out, log))
    reports, problems = [], []
    deadline = time.time() + watchdog_s
    for p, out, log in procs:
        try:
            rc = p.wait(timeout=max(1, deadline - time.time()))
        except subprocess.TimeoutExpired:
            p.kill()
            problems.append(f"shard {out} hit the wall-clock watchdog ({watchdog_s}s)")
            continue
        finally:
            log.close()
        if rc != 0 or not os.path.exists(out):
            problems.append(f"shard {out} exited {rc} without a report")
            continue
        with open(out) as f:
            reports.append(json.load(f))
    return reports, problems


def merge(reports):
    m = {k: 0 for k in SUM_KEYS}
    for k in MAP_KEYS:
        m[k] = {}
    m["shapes"] = set()
    m["violations"], m["samples"], m["inconclusive"], m["history"] = [], [], [], []
    for r in reports:
        for k in SUM_KEYS:
            m[k] += r.get(k, 0)
        for k in MAP_KEYS:
            for kk, vv in r.get(k, {}).items():
                m[k][kk] = m[k].get(kk, 0) + vv
        m["shapes"].update(r.get("shape_hashes", []))
        m["violations"].extend(r.get("violations", []))
        m["samples"].extend(r.get("samples", []))
        m["inconclusive"].extend(r.get("inconclusive", []))
        m["history"].extend(r.get("history", []))
        for k in ("rule_text", "exhaustive_note", "required_classes", "cases_generated"):
            m[k] = r.get(k)
    m["violations"].sort(key=lambda v: v["case_index"])
    return m


def check(pid, tier, replay=None):
    v = C.Verdict(pid, tier, LEVEL[pid])
    flavors = ["release", "checked"]
    wd = C.fresh_workdir(f"sim-{pid}")
    per_flavor = {}
    total_eval = 0
    shapes = set()
    hits, classes, families = {}, {}, {}
    samples = []
    events = 0
    oop = 0
    wraps = 0
    info = {}
    for fl in flavors:
        try:
            reports, problems = run_flavor(pid, tier, fl, C.NCPU, wd, 3600 if tier == "thorough" else 900)
        except C.BuildError as e:
            v.note_inconclusive(str(e))
            continue
        for pr in problems:
            v.note_inconclusive(pr)
        m = merge(reports)
        info = m
        per_flavor[fl] = {k: m[k] for k in SUM_KEYS}
        per_flavor[fl]["violation_rules"] = m["violation_rules"]
        total_eval += m["evaluations"]
        shapes |= m["shapes"]
        events += m["events_observed"]
        oop += m["out_of_premise"]
        wraps += m["blocks_beyond_65535_observed"]
        for src, dst in ((m["monitor_rule_hits"], hits), (m["event_classes_seen"], classes), (m["families"], families)):
            for k, val in src.items():
                dst[k] = dst.get(k, 0) + val
        if not samples:
            samples = m["samples"][:3]
        for viol in m["violations"]:
            role = "sender" if viol["spec"]["role"].startswith("worker-sends") else "receiver"
            sig = f"{pid}/{viol['rule']}/{viol['family']}/{role}"
            summary = f"[{fl}] case {viol['case_index']} {viol['spec']['label']}: {viol['detail']}"
            v.violation(sig, summary, {"engine": "sim", "property": pid, "tier": tier, "seed": C.seed(), "flavor": fl,
                                       "case_index": viol["case_index"], "finding": {"rule": viol["rule"], "detail": viol["detail"], "at_event": viol["at_event"]},
                                       "end": viol["end"], "spec": viol["spec"], "trace": viol["trace"],
                                       "rerun": f"./check {pid} --tier {tier} --replay <this file>"})
        # more violations than were kept in detail
        extra = m["violation_count"] - len(m["violations"])
        if extra > 0:
            per_flavor[fl]["violations_not_kept_in_detail"] = extra
        for h in m["history"]:
            if not h["stale_worker_parked"] or not h["latest_upload_complete"]:
                v.note_inconclusive(f"history case {h['label']} did not reach the intended state")
            elif not h["file_intact_after_stale_worker_ended"]:
                v.violation(h["signature"], f"[{fl}] {h['label']}: completed upload of the most recently accepted worker was {'removed' if not h['file_exists_after'] else 'altered'} when the earlier worker gave up", {"engine": "sim-history", "case": h})
        if m["history"]:
            per_flavor[fl]["history_cases"] = len(m["history"])
            per_flavor[fl]["history_intact"] = sum(1 for h in m["history"] if h["file_intact_after_stale_worker_ended"])
        for w in m["inconclusive"][:5]:
            v.note_inconclusive(w)
        missing = [c for c in (m.get("required_classes") or []) if m["event_classes_seen"].get(c, 0) == 0]
        if missing:
            v.note_inconclusive(f"[{fl}] required event classes never observed: {missing}")
    miri_info = None
    if tier == "thorough" and pid in ("C02", "C08", "C13"):
        # a handful of simulated transfers (threads, channel-free socket, file I/O, virtual clock hook) under Miri:
        # undefined behaviour, data races and leaks in what the workload reaches
        from . import purecheck
        miri_info = purecheck.miri_slice(pid, wd)
        if miri_info.get("status") == "ub-or-failure":
            v.violation(f"{pid}/miri", "Miri reported undefined behaviour / a data race / a failing monitor: " + miri_info.get("tail", "")[-600:], {"engine": "miri", "log": miri_info.get("log")})
        elif miri_info.get("status") != "clean":
            v.note_inconclusive("Miri slice did not run to completion: " + str(miri_info.get("status")))
    net_info = {}
    from . import net_ext
    if pid in net_ext.EXT:
        try:
            net_info, net_evals = net_ext.EXT[pid](v, tier)
            total_eval += net_evals
        except C.BuildError as e:
            v.note_inconclusive(str(e))
    cov = {
        "evaluations": total_eval,
        "distinct_nontrivial": len(shapes),
        "rule": "cases = fault plans / hostile peer scripts applied to the real tftpd::Worker behind a simulated socket with a virtual clock. "
                "non-trivial = at least one fault rule fired, a hostile peer/stray/failpoint was configured, duplicate-packets mode was on or the block number wrapped; "
                "distinct = distinct hash of the sequence of (event kind, packet kind, block relation new/retransmit/stale/gap) x configuration class, unioned over build flavours. "
                + (info.get("rule_text") or ""),
        "samples": samples,
        "exhaustive": False,
        "exhaustive_subspaces": info.get("exhaustive_note"),
        "events_observed": events,
        "monitor_rule_hits": hits,
        "event_classes_seen": classes,
        "case_families": families,
        "out_of_premise": oop,
        "blocks_beyond_65535_observed": wraps,
        "builds": per_flavor,
        "cases_generated_per_build": info.get("cases_generated"),
        "loopback_complement": net_info,
        "miri_slice": miri_info,
    }
    assumptions = [
        "the simulated socket + network model + reference peers (harness/src/sim.rs, peers.rs) are the trusted base; peers are written from RFC 1350/2347/7440",
        "time is virtual (feature `verif`): only Worker::send_file's Instant is virtualised; socket read timeouts are simulated exactly",
        "server.rs is not on this path (request -> Worker parameters is observed by the loopback checks)",
    ]
    return v.finish(cov, assumptions)


def replay(pid, path):
    with open(path) as f:
        rec = json.load(f)
    r = rec["replay"]
    if r.get("engine") != "sim":
        print(json.dumps(rec, indent=1)[:4000])
        return 0
    vh = C.build_harness(r["flavor"])
    wd = C.fresh_workdir(f"replay-{pid}")
    out = os.path.join(wd, "replay.json")
    os.environ["VERIF_SEED"] = str(r["seed"])
    subprocess.run([vh, "sim", pid, "--tier", r["tier"], "--seed", str(r["seed"]), "--threads", "1", "--only", str(r["case_index"]), "--out", out],
                   stdout=subprocess.DEVNULL, stderr=subprocess.DEVNULL)
    with open(out) as f:
        rep = json.load(f)
    print(f"replayed case {r['case_index']} ({r['spec']['label']}) on build {r['flavor']}: {rep['violation_count']} finding(s)")
    for viol in rep["violations"]:
        print(f"  {viol['rule']}: {viol['detail']}")
        for e in viol["trace"][:60]:
            print("    ", json.dumps(e))
    if rep["violation_count"]:
        print(f"VIOLATION property={pid} replay={path}")
        return 1
    return 0
