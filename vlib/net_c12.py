"""C12 — isolation of concurrent transfers and demultiplexing by endpoint (real tftpd, controlled datagram interleavings)."""
import itertools
import os
import random
import socket
import threading
import time

from . import common as C
from . import net as N
from .netcommon import Ctx, write

BLK = 512


class StepClient:
    """One transfer driven step by step; every step = (await the reply to my previous datagram) then (send my next datagram)."""

    def __init__(self, cid, role, server, nblocks, tag, src_ip=None, src_port=0):
        # role may carry a negotiated block size: "up@1024"
        self.blk = BLK
        if "@" in role:
            role, b = role.split("@")
            self.blk = int(b)
        self.opt = self.blk != BLK
        self.cid, self.role, self.server = cid, role, server
        self.name = f"{tag}_c{cid}.bin"
        self.content = N.keyed_content(f"{tag}-{cid}-{role}", (nblocks - 1) * self.blk + min(37 + cid, self.blk - 1))
        self.n = nblocks
        self.sock = N._sock(server.family, timeout=2.0, ip=src_ip, port=src_port)
        self.peer = None
        self.sent = 0           # number of my datagrams sent
        self.got = bytearray()  # download
        self.problems = []
        self.done = False
        self.src_ports = set()
        self.total_steps = nblocks + 1 + (1 if (self.opt and self.role == "down") else 0)

    def _await(self):
        """reply to datagram number self.sent (1-based)"""
        if self.sent == 0:
            return
        try:
            buf, src = self.sock.recvfrom(70000)
        except socket.timeout:
            self.problems.append(f"no reply to my datagram #{self.sent}")
            return
        src = src[:2]
        self.src_ports.add(src[1])
        if self.peer is None:
            self.peer = src
        elif src != self.peer:
            self.problems.append(f"reply from {src}, transfer peer is {self.peer}")
        k, f = N.dec(buf)
        B = self.blk
        if self.opt and self.sent == 1:
            # reply to the request carrying blksize must be the OACK with that value
            if k != "OACK" or dict(f["options"]).get("blksize") != str(B):
                self.problems.append(f"expected OACK blksize={B}, got {k} {str(f)[:80]}")
            return
        if self.role == "down":
            want_blk = self.sent - (1 if self.opt else 0)  # reply to RRQ (or ACK 0) is DATA 1, to ACK k is DATA k+1
            if k != "DATA" or f["blk"] != want_blk:
                self.problems.append(f"expected DATA {want_blk}, got {k} {str(f)[:80]}")
                return
            off = (want_blk - 1) * B
            if bytes(f["data"]) != self.content[off:off + B]:
                self.problems.append(f"DATA {want_blk} does not carry my file's bytes at offset {off} (got {len(f['data'])} bytes {bytes(f['data'])[:12]!r})")
            self.got += f["data"]
        else:
            want = self.sent - 1  # reply to WRQ is ACK 0 (or OACK), to DATA k is ACK k
            if k != "ACK" or f["blk"] != want:
                self.problems.append(f"expected ACK {want}, got {k} {str(f)[:80]}")

    def step(self):
        self._await()
        if self.problems:
            return
        i = self.sent
        B = self.blk
        opts = [("blksize", B)] if self.opt else []
        if self.role == "down":
            if i == 0:
                self.sock.sendto(N.enc_req(N.RRQ, self.name, options=opts), self.server.addr)
            else:
                self.sock.sendto(N.enc_ack(i - (1 if self.opt else 0)), self.peer)
        else:
            if i == 0:
                self.sock.sendto(N.enc_req(N.WRQ, self.name, options=opts), self.server.addr)
            else:
                self.sock.sendto(N.enc_data(i, self.content[(i - 1) * B:i * B]), self.peer)
        self.sent += 1

    def finish(self):
        if self.role == "up" and not self.problems:
            self._await()  # ACK of the final block
        self.done = True
        self.sock.close()


def check_client(v, c, srv, sb, cfg, replay):
    for p in c.problems:
        v.violation(f"C12/interference/{c.role}", f"{cfg}: client {c.cid} ({c.role}): {p}", replay)
    if c.problems:
        return
    if srv.single:
        if c.src_ports != {srv.port}:
            v.violation("C12/port-discipline/single", f"{cfg}: client {c.cid} got datagrams from ports {c.src_ports}, listening port is {srv.port}", replay)
    else:
        if len(c.src_ports) != 1 or srv.port in c.src_ports:
            v.violation("C12/port-discipline/multi", f"{cfg}: client {c.cid} was served from ports {c.src_ports} (listening port {srv.port})", replay)
    if c.role == "down":
        if bytes(c.got) != c.content:
            v.violation("C12/content/download", f"{cfg}: client {c.cid} received {len(c.got)} bytes differing from its own file", replay)
    else:
        path = os.path.join(sb["srv"], c.name)
        for _ in range(50):
            if os.path.exists(path) and os.path.getsize(path) == len(c.content):
                break
            time.sleep(0.01)
        data = open(path, "rb").read() if os.path.exists(path) else None
        if data != c.content:
            v.violation("C12/content/upload", f"{cfg}: upload of client {c.cid} stored {None if data is None else len(data)} bytes differing from what it sent", replay)


def interleavings(counts):
    """all orders of sum(counts) steps in which client i takes counts[i] steps"""
    total = sum(counts)

    def rec(left, acc):
        if len(acc) == total:
            yield tuple(acc)
            return
        for i in range(len(left)):
            if left[i]:
                left[i] -= 1
                acc.append(i)
                yield from rec(left, acc)
                acc.pop()
                left[i] += 1
    yield from rec(list(counts), [])


def run_schedule(v, srv, sb, cfg, roles, nblocks, order, tag, intruder_plan=None, rng=None, same_port=False):
    if v.enough():
        return [], []
    if same_port and srv.family == socket.AF_INET:
        # endpoints that differ only in their IP address: 127.0.0.1:P, 127.0.0.2:P, ...
        first = StepClient(0, roles[0], srv, nblocks, tag, src_ip="127.0.0.1")
        port = first.sock.getsockname()[1]
        clients = [first]
        for i, r in enumerate(roles[1:], start=1):
            try:
                clients.append(StepClient(i, r, srv, nblocks, tag, src_ip=f"127.0.0.{i + 1}", src_port=port))
            except OSError:
                clients.append(StepClient(i, r, srv, nblocks, tag))
    else:
        clients = [StepClient(i, r, srv, nblocks, tag) for i, r in enumerate(roles)]
    for c in clients:
        if c.role == "down":
            write(os.path.join(sb["srv"], c.name), c.content)
    replay = {"engine": "net", "config": cfg, "roles": roles, "blocks": nblocks, "order": list(order), "intruders": intruder_plan}
    intr_results = []
    for pos, ci in enumerate(order):
        if intruder_plan and pos in intruder_plan:
            intr_results.append(intrude(v, srv, clients, intruder_plan[pos], cfg, replay))
        clients[ci].step()
    for c in clients:
        c.finish()
    for c in clients:
        check_client(v, c, srv, sb, cfg, replay)
    for c in clients:
        try:
            os.unlink(os.path.join(sb["srv"], c.name))
        except OSError:
            pass
    return clients, intr_results


def intrude(v, srv, clients, what, cfg, replay):
    """an endpoint that owns no transfer sends a well-formed non-request packet"""
    kind, target = what
    if target == "listen-same-port":
        # a foreign endpoint that shares only the PORT number with a client that owns a transfer
        victim_port = next((c.sock.getsockname()[1] for c in clients if c.peer), None)
        target = "listen"
        if victim_port and srv.family == socket.AF_INET:
            try:
                s = N._sock(srv.family, timeout=3.0, ip="127.0.0.9", port=victim_port)
            except OSError:
                s = N._sock(srv.family, timeout=3.0)
        else:
            s = N._sock(srv.family, timeout=3.0)
        return _intrude_with(v, srv, clients, kind, target, cfg, replay, s)
    return _intrude_with(v, srv, clients, kind, target, cfg, replay, N._sock(srv.family, timeout=3.0))


def _intrude_with(v, srv, clients, kind, target, cfg, replay, s):
    # one attempt with a generous timeout: a second attempt could mask a reply that is only missing the first time
    try:
        if kind == "RRQ-SPECIAL":
            # a foreign endpoint asks for a file that cannot be opened at once (a FIFO nobody writes to): whatever it is
            # told, the other endpoints' transfers go on (checked by the schedule) and the listener keeps answering
            # (asked from a socket of its own: that endpoint may own a transfer afterwards)
            q = N._sock(srv.family, timeout=0.2)
            q.sendto(N.enc_req(N.RRQ, "pipe.fifo", options=[("timeout", 1)]), srv.addr)
            try:
                q.recvfrom(2048)
            except (socket.timeout, OSError):
                pass
            q.close()
            kind = "ACK"
        pkt = {"ACK": N.enc_ack(1), "DATA": N.enc_data(1, b"intruder payload"), "ERROR": N.enc_error(0, b"intruder"), "OACK": N.enc_oack([("blksize", 8)]), "ACK2": N.enc_ack(2), "DATA2": N.enc_data(2, b"x" * 512)}[kind]
        if target == "listen":
            s.sendto(pkt, srv.addr)
            try:
                buf, src = s.recvfrom(2048)
                k, f = N.dec(buf)
                if k != "ERROR":
                    v.violation(f"C12/intruder-not-refused/{kind}", f"{cfg}: {kind} from a foreign endpoint to the listening port was answered {k} {str(f)[:60]}", replay)
                elif b"payload" in buf or any(c.content[:16] in buf for c in clients):
                    v.violation("C12/leak", f"{cfg}: reply to an intruder carries transfer data", replay)
                return "answered-error"
            except socket.timeout:
                v.violation(f"C12/intruder-not-answered/{kind}", f"{cfg}: {kind} from an endpoint owning no transfer, sent to the listening port, got no ERROR reply", replay)
                return "silent"
        else:
            # another transfer's ephemeral port (multi-port mode)
            peers = [c.peer for c in clients if c.peer]
            if not peers:
                return "no-target"
            s.sendto(pkt, peers[0])
            s.settimeout(0.3)
            try:
                buf, src = s.recvfrom(2048)
                k, f = N.dec(buf)
                if k == "DATA":
                    v.violation("C12/leak", f"{cfg}: a foreign endpoint received DATA from another transfer's port", replay)
                return f"answered-{k}"
            except (socket.timeout, ConnectionRefusedError):
                return "dropped"
    finally:
        s.close()


def mixed_timeouts(v, srv, sb, cfg, out):
    """Overlapping transfers of different endpoints that negotiated different timeouts. A transfer with timeout 10 s whose
    client pauses 7.5 s (inside its own timeout) must survive a neighbour that negotiates timeout 1 s; a transfer with
    timeout 1 s must get its retransmission after about 1 s although a neighbour negotiates 30 s."""
    try:
        a_content = N.keyed_content("mtA", 512 * 2 + 100)
        write(os.path.join(sb["srv"], "mtA.bin"), a_content)
        write(os.path.join(sb["srv"], "mtB.bin"), N.keyed_content("mtB", 700))
        up_content = N.keyed_content("mtU", 512 * 2 + 50)
        fam = srv.family
        # first: C negotiates timeout 1, D negotiates timeout 30 right behind it; C withholds its ACK
        late = []
        for attempt in range(3):
            sc, sd = N._sock(fam, timeout=6.0), N._sock(fam, timeout=1.0)
            trc = N.Transfer()
            sc.sendto(N.enc_req(N.RRQ, "mtA.bin", options=[("timeout", 1)]), srv.addr)
            kc, fc, pc = N.recv(sc, trc)
            if kc == "OACK":
                sc.sendto(N.enc_ack(0), pc)
                kc, fc, _ = N.recv(sc, trc)       # DATA 1
                sd.sendto(N.enc_req(N.RRQ, "mtB.bin", options=[("timeout", 30)]), srv.addr)
                try:
                    _, pd = sd.recvfrom(2048)
                    sd.sendto(N.enc_error(0, b"never mind"), pd[:2])
                except OSError:
                    pass
                # one more exchange, so that the worker's next wait begins after D's request; then C withholds its ACK
                sc.sendto(N.enc_ack(1), pc)
                kc, fc, _ = N.recv(sc, trc)       # DATA 2
                t1 = time.time()
                kc2, fc2, _ = N.recv(sc, trc)     # the retransmission of DATA 2
                dt = time.time() - t1
                sc.sendto(N.enc_error(0, b"done"), pc)
                late.append(None if (kc2 != "DATA" or fc2["blk"] != 2) else round(dt, 2))
            sc.close()
            sd.close()
            if late and late[-1] is not None and late[-1] <= 3.0:
                break
        out["retransmission_after_s"] = late
        if len(late) == 3 and all(x is None or x > 3.0 for x in late):
            v.violation("C12/mixed-timeouts/retransmission-delayed", f"{cfg}: a download that negotiated timeout 1 s got its retransmission after {late} s (3 of 3 attempts) while another endpoint negotiated timeout 30 s",
                        {"engine": "net", "config": cfg, "scenario": "timeout 1 next to timeout 30", "measured": late})
        # A: download, timeout 10; U: upload, timeout 10
        sa, su = N._sock(fam, timeout=4.0), N._sock(fam, timeout=4.0)
        tra, tru = N.Transfer(), N.Transfer()
        sa.sendto(N.enc_req(N.RRQ, "mtA.bin", options=[("timeout", 10)]), srv.addr)
        k, f, pa = N.recv(sa, tra)
        su.sendto(N.enc_req(N.WRQ, "mtU.bin", options=[("timeout", 10)]), srv.addr)
        k2, f2, pu = N.recv(su, tru)
        if k != "OACK" or k2 != "OACK":
            out["note"] = f"mixed timeouts: first replies {k} / {k2}"
            return
        sa.sendto(N.enc_ack(0), pa)
        k, f, _ = N.recv(sa, tra)                 # DATA 1
        su.sendto(N.enc_data(1, up_content[:512]), pu)
        k2, f2, _ = N.recv(su, tru)               # ACK 1
        # neighbours: B negotiates timeout 1 and completes
        trb = N.download(srv.addr, "mtB.bin", [("timeout", 1)], family=fam)
        # one more exchange each, so that the workers' next wait begins after B's request
        sa.sendto(N.enc_ack(1), pa)
        data = bytearray(f["data"]) if k == "DATA" else bytearray()
        k, f, _ = N.recv(sa, tra)                 # DATA 2
        if k == "DATA" and f["blk"] == 2:
            data += f["data"]
        su.sendto(N.enc_data(2, up_content[512:1024]), pu)
        k2, f2, _ = N.recv(su, tru)               # ACK 2
        t0 = time.time()
        # A and U resume 7.5 s after B's request
        time.sleep(max(0.0, 7.5 - (time.time() - t0)))
        sa.sendto(N.enc_ack(2), pa)
        ok_a = False
        for _ in range(8):
            k, f, _ = N.recv(sa, tra)
            if k != "DATA":
                break
            if f["blk"] == len(data) // 512 + 1:
                data += f["data"]
            sa.sendto(N.enc_ack(f["blk"]), pa)
            if len(f["data"]) < 512:
                ok_a = bytes(data) == a_content
                break
        if not ok_a:
            v.violation("C12/mixed-timeouts/download-killed", f"{cfg}: a download that negotiated timeout 10 s and paused 7.5 s was not completed after another endpoint negotiated timeout 1 s (last reply {k} {str(f)[:80]})",
                        {"engine": "net", "config": cfg, "scenario": "timeout 10 next to timeout 1", "last_reply": str((k, f))[:200]})
        ok_u = False
        blk = 3
        while True:
            su.sendto(N.enc_data(blk, up_content[(blk - 1) * 512:blk * 512]), pu)
            k2, f2, _ = N.recv(su, tru)
            if k2 != "ACK" or f2["blk"] != blk:
                break
            if len(up_content[(blk - 1) * 512:blk * 512]) < 512:
                time.sleep(0.05)
                try:
                    ok_u = open(os.path.join(sb["rcv"], "mtU.bin"), "rb").read() == up_content
                except OSError:
                    ok_u = False
                break
            blk += 1
        if not ok_u:
            v.violation("C12/mixed-timeouts/upload-killed", f"{cfg}: an upload that negotiated timeout 10 s and paused 7.5 s was not completed after another endpoint negotiated timeout 1 s (last reply {k2} {str(f2)[:80]})",
                        {"engine": "net", "config": cfg, "scenario": "timeout 10 next to timeout 1", "last_reply": str((k2, f2))[:200]})
        out["paused_transfers_completed"] = int(ok_a) + int(ok_u)
        out["neighbour_completed"] = trb.completed
        sa.close()
        su.close()
    except Exception as e:   # harness trouble is not a verdict
        out["note"] = f"mixed timeouts: {type(e).__name__}: {e}"


def long_lived(v, srv, sb, cfg, out):
    """A healthy upload that lasts longer than six of its (1 s) timeouts without ever pausing for one, while another
    endpoint's request is accepted late in its life: the long transfer must go on."""
    try:
        body = N.keyed_content("c12-long", 512 * 17 + 40)
        s = N._sock(srv.family, timeout=2.0)
        tr = N.Transfer()
        s.sendto(N.enc_req(N.WRQ, "long_lived.bin", options=[("timeout", 1)]), srv.addr)
        k, f, peer = N.recv(s, tr)
        if k != "OACK":
            out["long_lived"] = f"not started ({k})"
            return
        t0 = time.time()
        neighbour_done = False
        failed = None
        n = len(body) // 512 + 1
        for blk in range(1, n + 1):
            s.sendto(N.enc_data(blk, body[(blk - 1) * 512:blk * 512]), peer)
            k, f, _ = N.recv(s, tr)
            if k != "ACK" or f["blk"] != blk:
                failed = (blk, k, f)
                break
            if blk == 4:
                # a foreign endpoint asks to write the very file this upload is creating, with an option value the server
                # cannot honour (--overwrite is on): whatever it is told, the upload in progress is not its to disturb
                q = N._sock(srv.family, timeout=0.3)
                q.sendto(N.enc_req(N.WRQ, "long_lived.bin", options=[("blksize", 7)]), srv.addr)
                try:
                    buf, qsrc = q.recvfrom(2048)
                    if N.dec(buf)[0] in ("OACK", "ACK"):
                        q.sendto(N.enc_error(0, b"never mind"), qsrc[:2])
                except (socket.timeout, OSError):
                    pass
                q.close()
            if not neighbour_done and time.time() - t0 > 7.0:
                trb = N.download(srv.addr, "mtB.bin", [("timeout", 1)], family=srv.family)
                neighbour_done = trb.completed
            time.sleep(0.5)
        s.close()
        time.sleep(0.1)
        stored = None
        try:
            stored = open(os.path.join(sb["rcv"], "long_lived.bin"), "rb").read()
        except OSError:
            pass
        out["long_lived"] = {"seconds": round(time.time() - t0, 1), "neighbour_served": neighbour_done, "completed": failed is None and stored == body}
        if failed or stored != body:
            what = (f"was cut when another endpoint's request was accepted: block {failed[0]} answered {failed[1]} {str(failed[2])[:60]}" if failed
                    else f"was acknowledged to the end but the stored file is {'missing' if stored is None else 'different'} (another endpoint had sent a WRQ for the same name with blksize=7 meanwhile)")
            v.violation("C12/long-lived-transfer-cut" if failed else "C12/upload-disturbed-by-foreign-request", f"{cfg}: an upload running for {time.time() - t0:.0f} s (timeout 1 s, a block every 0.5 s) {what}",
                        {"engine": "net", "config": cfg, "scenario": "long-lived upload + late neighbour", "failed_at": str(failed)[:120]})
    except Exception as e:
        out["long_lived"] = f"harness trouble: {type(e).__name__}: {e}"


def run(tier):
    v = C.Verdict("C12", tier, "exploration")
    thorough = tier == "thorough"
    ctx = Ctx("C12", tier)
    tftpd = ctx.bins["release"]["tftpd"]
    rng = ctx.rng
    evaluations = 0
    schedules = set()
    classes = {}
    samples = []
    for single, ip in ((False, "127.0.0.1"), (True, "127.0.0.1"), (True, "::1"), (False, "::1")):
        cfg = ("single" if single else "multi") + ("-v6" if ":" in ip else "")
        sb = ctx.sandbox("c12")
        try:
            srv_cm = N.Server(tftpd, sb["srv"], single=single, ip=ip, logdir=sb["logs"]).start()
        except Exception as e:
            v.note_inconclusive(f"could not start a server on {ip}: {e}")
            continue
        with srv_cm as srv:
            tagn = 0
            try:
                os.mkfifo(os.path.join(sb["srv"], "pipe.fifo"))
            except OSError:
                pass
            mt_out = {}
            # on a server of its own (every other request would touch whatever state the listener shares between transfers)
            mt_sb = ctx.sandbox("c12mt")
            mt_srv = N.Server(tftpd, mt_sb["srv"], single=single, ip=ip, overwrite=True, logdir=mt_sb["logs"]).start()
            mt_thread = threading.Thread(target=lambda a=(v, mt_srv, mt_sb, cfg, mt_out): (mixed_timeouts(*a), long_lived(*a)))
            mt_thread.start()
            # exhaustive interleavings, K = 2 (and 3 in thorough)
            plans = [(("down", "down"), 3), (("down", "up"), 3), (("up", "up"), 3),
                     # mixed negotiated block sizes: the listener's shared state must not depend on the most recent request
                     (("up@1024", "down"), 3), (("up@1428", "up"), 3), (("down@1024", "up@8"), 2)]
            if thorough:
                plans += [(("down", "down", "up"), 2), (("up", "up", "down"), 2), (("down", "down", "down"), 2)]
            for roles, nblocks in plans:
                counts = [nblocks + 1 + (1 if (("@" in r) and r.startswith("down")) else 0) for r in roles]
                for order in interleavings(counts):
                    tagn += 1
                    evaluations += 1
                    run_schedule(v, srv, sb, cfg, roles, nblocks, order, f"x{tagn}")
                    schedules.add((cfg, roles, order))
                classes[f"exhaustive:{cfg}:{'/'.join(roles)}"] = classes.get(f"exhaustive:{cfg}:{'/'.join(roles)}", 0) + 1
                if not srv.alive():
                    v.note_inconclusive(f"{cfg}: server died: {srv.log_tail(300)}")
                    break
            # endpoints are (address, port) pairs: two clients with the same port number on different loopback addresses
            for roles in (("down", "down"), ("down", "up"), ("up", "up")):
                for order in interleavings([4, 4]):
                    tagn += 1
                    evaluations += 1
                    run_schedule(v, srv, sb, cfg, roles, 3, order, f"p{tagn}", same_port=True)
                    schedules.add((cfg, "same-port", roles, order))
            classes[f"same-port-different-address:{cfg}"] = 210
            # intruders at every position of a K=2 schedule
            for kind in ("ACK", "DATA", "ERROR", "OACK", "RRQ-SPECIAL"):
                for target in (("listen", "listen-same-port") if single else ("listen", "transfer-port", "listen-same-port")):
                    if kind == "RRQ-SPECIAL" and target != "listen":
                        continue
                    for pos in range(0, 8):
                        tagn += 1
                        evaluations += 1
                        order = (0, 1, 0, 1, 0, 1, 0, 1)
                        _, res = run_schedule(v, srv, sb, cfg, ("down", "up"), 3, order, f"i{tagn}", intruder_plan={pos: (kind, target)})
                        for r in res:
                            classes[f"intruder:{target}:{r}"] = classes.get(f"intruder:{target}:{r}", 0) + 1
                        schedules.add((cfg, "intruder", kind, target, pos))
            # a crowd: one transfer pauses between two of its datagrams while 6..10 other clients get their requests accepted
            for victim in ("up", "down", "up@1024"):
                for crowd in (6, 7, 10):
                    for pause_after in (1, 2):
                        roles = (victim,) + tuple(("down", "up")[i % 2] for i in range(crowd))
                        vsteps = 3 + 1 + (1 if (("@" in victim) and victim.startswith("down")) else 0)
                        order = [0] * pause_after + list(range(1, crowd + 1)) + [0] * (vsteps - pause_after)
                        for i in range(1, crowd + 1):
                            order += [i] * 3
                        tagn += 1
                        evaluations += 1
                        run_schedule(v, srv, sb, cfg, roles, 3, tuple(order), f"c{tagn}")
                        schedules.add((cfg, "crowd", victim, crowd, pause_after))
            classes[f"crowd:{cfg}"] = 18
            # seeded random: K up to 8 (16 thorough), mixed roles, intruders at random steps
            for r in range(60 if thorough else 12):
                K = rng.randint(3, 16 if thorough else 8)
                roles = tuple(rng.choice(("down", "up", "down", "up", "up@1024", "down@1024", "up@1428", "down@8", "up@65464")) for _ in range(K))
                nblocks = rng.randint(1, 4)
                order = [i for i, r in enumerate(roles) for _ in range(nblocks + 1 + (1 if (("@" in r) and r.startswith("down")) else 0))]
                rng.shuffle(order)
                plan = {rng.randrange(len(order)): (rng.choice(["ACK", "DATA", "ERROR", "OACK", "ACK2", "DATA2"]), rng.choice(["listen", "listen", "transfer-port"] if not single else ["listen"])) for _ in range(rng.randint(0, 4))}
                tagn += 1
                evaluations += 1
                cl, res = run_schedule(v, srv, sb, cfg, roles, nblocks, tuple(order), f"r{tagn}", intruder_plan=plan)
                schedules.add((cfg, roles, tuple(order)))
                if len(samples) < 3:
                    samples.append({"config": cfg, "roles": roles, "blocks_each": nblocks, "datagram_order": order[:40], "intruders": {str(k): val for k, val in plan.items()}, "intruder_results": res})
            mt_thread.join()
            mt_srv.stop()
            evaluations += 1
            if "note" in mt_out:
                v.note_inconclusive(f"{cfg}: {mt_out['note']}")
            else:
                classes[f"mixed-timeouts:{cfg}"] = mt_out
                schedules.add((cfg, "mixed-timeouts"))
            # stale endpoint: a source whose transfer has ended sends a non-request packet
            evaluations += 1
            s = N._sock(srv.family, timeout=3.0)
            write(os.path.join(sb["srv"], "stale.bin"), b"tiny")
            tr = N.download(srv.addr, "stale.bin", sock=s)
            time.sleep(0.05)
            s.sendto(N.enc_ack(1), srv.addr)
            try:
                buf, src = s.recvfrom(2048)
                if N.dec(buf)[0] != "ERROR":
                    v.violation("C12/stale-endpoint", f"{cfg}: ACK from an endpoint whose transfer has ended was answered {N.dec(buf)}", {"engine": "net", "config": cfg})
                classes["stale-endpoint:answered-error"] = classes.get("stale-endpoint:answered-error", 0) + 1
            except socket.timeout:
                v.violation("C12/stale-endpoint-unanswered", f"{cfg}: ACK sent to the listening port by an endpoint that owns no (longer a) transfer got no ERROR", {"engine": "net", "config": cfg, "download_completed": tr.completed})
            s.close()
    if thorough:
        tsan_note = tsan_run(v, ctx)
        classes["tsan"] = tsan_note
    cov = {"evaluations": evaluations, "distinct_nontrivial": len(schedules),
           "rule": "K model clients (downloads and uploads of 2-5 blocks of 512 bytes, contents keyed by client so that a payload identifies its file and offset) are stepped by one scheduler: a step = await the reply to my previous datagram, then send my next one; the order of steps is the datagram interleaving offered to the server. Per client: every DATA is its own file's block, source port discipline (single: always the listening port; multi: one ephemeral port, never the listening port), final bytes/file identical. Intruder endpoints inject ACK/DATA/ERROR/OACK at the listening port (must be answered with ERROR) and at other transfers' ports. distinct = distinct (port mode, roles, step order).",
           "samples": samples, "exhaustive": True,
           "exhaustive_subspaces": "all interleavings of K=2 clients x 4 steps for {down,down},{down,up},{up,up} in both port modes (70 each); thorough: K=3 x 3 steps (1680 each). Random schedules with K<=8/16 are samples; the server's internal thread schedule is not controlled.",
           "interleavings_distinct": len(schedules), "classes": classes}
    return v.finish(cov, ["source-address spoofing is not attempted", "server-internal thread interleavings are only sampled (repetition, TSan build in thorough tier)"])


def tsan_run(v, ctx):
    """ThreadSanitizer build of tftpd under the random concurrent workload (thorough tier)."""
    import subprocess
    tdir = os.path.join(C.TARGET, "bin-tsan" + C.repo_tag())
    env = C.cargo_env({"CARGO_TARGET_DIR": tdir, "RUSTFLAGS": "-Zsanitizer=thread"})
    cmd = ["cargo", "+nightly", "build", "--offline", "--release", "-Zbuild-std", "--target", "x86_64-unknown-linux-gnu", "--features", "client", "--manifest-path", os.path.join(C.REPO, "Cargo.toml"), "--bin", "tftpd"]
    p = subprocess.run(cmd, env=env, cwd=C.REPO, stdout=subprocess.PIPE, stderr=subprocess.STDOUT, text=True)
    if p.returncode != 0:
        v.note_inconclusive("ThreadSanitizer build failed: " + p.stdout[-300:])
        return "build-failed"
    binary = os.path.join(tdir, "x86_64-unknown-linux-gnu", "release", "tftpd")
    reports = 0
    for single in (False, True):
        sb = ctx.sandbox("c12tsan")
        cfg = "tsan-" + ("single" if single else "multi")
        os.environ["TSAN_OPTIONS"] = "halt_on_error=0 exitcode=0"
        with N.Server(binary, sb["srv"], single=single, logdir=sb["logs"]) as srv:
            rng = random.Random(C.seed())
            for r in range(30):
                K = rng.randint(4, 12)
                roles = tuple(rng.choice(("down", "up")) for _ in range(K))
                order = [i for i in range(K) for _ in range(4)]
                rng.shuffle(order)
                run_schedule(v, srv, sb, cfg, roles, 3, tuple(order), f"t{r}")
            time.sleep(0.3)
            log = srv.log_tail(200000)
        n = log.count("WARNING: ThreadSanitizer")
        reports += n
        if n:
            i = log.index("WARNING: ThreadSanitizer")
            v.violation("C12/tsan-data-race", f"{cfg}: ThreadSanitizer reported {n} issue(s): {log[i:i + 600]}", {"engine": "net-tsan", "log": srv.log_path})
    return f"tsan build ran 60 concurrent schedules, {reports} report(s)"
