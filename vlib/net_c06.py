"""C06 — access policy decision table against the real tftpd on loopback."""
import itertools
import os
import socket

from . import common as C
from . import net as N
from .netcommon import Ctx, write, quiet_after

BAD_OPTSETS = {
    "bad-blksize7": (("blksize", 7),), "bad-blksize65465": (("blksize", 65465), ("tsize", 0)), "bad-timeout0": (("timeout", 0),),
    "bad-window0": (("windowsize", 0), ("blksize", 512)), "bad-window65536": (("windowsize", 65536),),
}
OPTSETS = {
    "none": (),
    "blksize": (("blksize", 1024),),
    "tsize": (("tsize", 0),),
    "all": (("blksize", 600), ("timeout", 2), ("tsize", 0), ("windowsize", 3)),
    # an unknown option with an empty value (RFC 2090 `multicast`), alone and next to a known one
    "unknown-empty": (("multicast", ""),),
    "known+unknown-empty": (("blksize", 1024), ("multicast", "")),
}


def run_config(v, ctx, tftpd, tier, combo, rng):
    (ro, ow, keep, single, dist) = combo
    evaluations = 0
    distinct = set()
    samples = []
    outcomes = {}
    sb = ctx.sandbox("c06", distinct=dist)
    cfgname = f"ro={int(ro)},ow={int(ow)},keep={int(keep)},single={int(single)},distinct={int(dist)}"
    # model of both directories: relative name -> content
    send_files, recv_files = {}, {}
    if not dist:
        recv_files = send_files
    def put(d, model, name, content):
        write(os.path.join(sb[d], name), content)
        model[name] = content
    put("srv", send_files, "exist_short.bin", N.keyed_content("s-short", 300))
    put("srv", send_files, "exist_long.bin", N.keyed_content("s-long", 5000))
    put("srv", send_files, "sub/in_sub.bin", N.keyed_content("s-sub", 700))
    put("srv", send_files, "exist_empty.bin", b"")
    put("srv", send_files, "name with space.bin", N.keyed_content("s-space", 1200))
    put("srv", send_files, "\u00fcn\u00ef c\u00f6d\u00e9 \u6587.bin", N.keyed_content("s-uni", 600))
    put("srv", send_files, "L" * 180 + ".bin", N.keyed_content("s-long", 333))
    put("srv", send_files, "sub/empty_in_sub.bin", b"")
    if dist:
        put("rcv", recv_files, "exist_short.bin", N.keyed_content("r-short", 200))
        put("rcv", recv_files, "exist_long.bin", N.keyed_content("r-long", 4000))
        put("rcv", recv_files, "sub/in_sub.bin", N.keyed_content("r-sub", 900))
        put("rcv", recv_files, "only_rcv.bin", N.keyed_content("r-only", 100))
        put("rcv", recv_files, "exist_empty.bin", b"")
        put("rcv", recv_files, "name with space.bin", N.keyed_content("r-space", 800))
        put("rcv", recv_files, "\u00fcn\u00ef c\u00f6d\u00e9 \u6587.bin", N.keyed_content("r-uni", 450))
        put("rcv", recv_files, "sub/empty_in_sub.bin", b"")
    write(os.path.join(sb["outside"], "canary.txt"), b"outside canary")
    targets = ["missing1.bin", "missing2.bin", "exist_short.bin", "exist_long.bin", "sub/in_sub.bin", "sub/missing_in_sub.bin", "only_rcv.bin", "exist_empty.bin", "sub/empty_in_sub.bin", "name with space.bin", "\u00fcn\u00ef c\u00f6d\u00e9 \u6587.bin", "L" * 180 + ".bin", "new name with space.bin", "n\u00e9w \u6587.bin"]
    reqs = [(kind, t, o) for kind in ("RRQ", "WRQ") for t in targets for o in OPTSETS]
    # missing files whose lookup fails with something other than "no such entry": a component longer than NAME_MAX, a path
    # through a regular file, through a missing directory (read requests only: they name no file, so ERROR 1)
    odd_missing = ["M" * 300 + ".bin", "exist_short.bin/child.bin", "sub/" + "N" * 260, "sub/in_sub.bin/x/y.bin", "nodir/missing.bin"]
    reqs += [("RRQ", t, o) for t in odd_missing for o in ("none", "all")]
    must_keep = [("RRQ", t, "none") for t in odd_missing[:3]]
    # names of existing files spelled with a trailing separator / dot component: they name no file, so the reply is not
    # specified - but without --overwrite (or read-only) nothing on disk may change
    trailing = [t + suf for t in ("exist_short.bin", "sub/in_sub.bin", "exist_empty.bin") for suf in ("/", "/.", "//", "\\")]
    reqs += [("WRQ-TRAILING", t, "none") for t in trailing] + [("WRQ-TRAILING", trailing[0], "all")]
    must_keep += [("WRQ-TRAILING", t, "none") for t in trailing[:5]]
    # requests that must be refused whatever their options say: also with an out-of-range option value
    bad = [(kind, t, o) for kind in ("RRQ", "WRQ") for t in targets for o in BAD_OPTSETS]
    rng.shuffle(bad)
    reqs += bad[:20]
    rng.shuffle(reqs)
    if tier != "thorough":
        reqs = reqs[:90] + [r for r in must_keep if r not in reqs[:90]]
    srv = N.Server(tftpd, sb["srv"], single=single, read_only=ro, overwrite=ow, keep=keep,
                   send_dir=sb["srv"] if dist else None, recv_dir=sb["rcv"] if dist else None, logdir=sb["logs"], shuffle=rng)
    pool = [N._sock(timeout=2.0) for _ in range(3)]
    with srv:
        for seqno, (kind, target, oname) in enumerate(reqs):
            evaluations += 1
            opts = OPTSETS[oname] if oname in OPTSETS else BAD_OPTSETS[oname]
            is_bad = oname in BAD_OPTSETS
            before = N.snapshot(sb["root"])
            replay = {"engine": "net", "config": cfgname, "request": [kind, target, oname], "sequence_so_far": reqs[:seqno + 1], "server_args": srv.args}
            # two thirds of the requests come from a small pool of long-lived client endpoints (a client that issues
            # several requests from one socket), the rest from fresh ones
            own_socket = rng.random() < 0.34
            if own_socket:
                s = N._sock(timeout=2.0)
            else:
                s = pool[rng.randrange(len(pool))]
                s.settimeout(0.05)
                try:
                    while True:
                        s.recvfrom(70000)   # flush leftovers of the previous use
                except OSError:
                    pass
                s.settimeout(2.0)
            replay["client_endpoint"] = "fresh" if own_socket else f"reused {s.getsockname()[1]}"
            try:
                if kind == "WRQ-TRAILING":
                    newc = N.keyed_content(f"trail-{cfgname}-{seqno}", 900)
                    # one short block, sent only if the request is accepted; nothing is retried (an accepted request
                    # whose file cannot be created simply goes unanswered)
                    tr = N.Transfer()
                    s.settimeout(0.6)
                    s.sendto(N.enc_req(N.WRQ, target, options=tuple((k, (len(newc) if k == "tsize" else val)) for k, val in opts)), srv.addr)
                    k1, f1, src1 = N.recv(s, tr)
                    tr.first = (k1, f1, src1)
                    if k1 in ("ACK", "OACK"):
                        s.sendto(N.enc_data(1, newc[:300]), src1)
                        N.recv(s, tr)
                    s.settimeout(2.0)
                    __import__("time").sleep(0.05)
                    diff = N.snap_diff(before, N.snapshot(sb["root"]))
                    state, expect = "existing+trailing-separator", "no-effect" if (ro or not ow) else "unspecified"
                    if diff and (ro or not ow):
                        v.violation("C06/trailing-separator-fs-effect", f"{cfgname}: WRQ {target!r} (an existing file spelled with a trailing separator; overwrite off) changed the filesystem: {diff[:3]} (first reply {tr.first and tr.first[0]})", replay)
                    elif diff:
                        # overwrite mode: follow the filesystem so that the model stays in step
                        for rel in list(recv_files):
                            pth = os.path.join(sb["rcv"], rel)
                            if os.path.isfile(pth):
                                recv_files[rel] = open(pth, "rb").read()
                            else:
                                recv_files.pop(rel, None)
                elif kind == "RRQ":
                    state = "existing" if target in send_files else "missing"
                    tr = N.download(srv.addr, target, opts, sock=s)
                    if state == "missing" and tr.first and tr.first[0] is None:
                        s.settimeout(3.0)
                        tr = N.download(srv.addr, target, opts, sock=s)
                    if state == "missing":
                        expect = "ERROR1"
                        if not tr.error or tr.error[0] != 1:
                            v.violation(f"C06/rrq-missing/reply", f"{cfgname}: RRQ {target} (missing) answered {tr.first} instead of ERROR 1", replay)
                        elif tr.error[2] != srv.addr:
                            v.violation("C06/refusal-port", f"{cfgname}: ERROR for missing file came from {tr.error[2]}, not the listening port {srv.port}", replay)
                    elif is_bad:
                        expect = "unspecified(bad option)"
                    else:
                        expect = "served"
                        if not tr.completed or bytes(tr.data) != send_files[target]:
                            v.violation("C06/rrq-existing", f"{cfgname}: RRQ {target} not served correctly: first={tr.first} completed={tr.completed} note={tr.note}", replay)
                    extra = quiet_after(s, 0.05) if tr.error else []
                    if extra:
                        v.violation("C06/refusal-starts-transfer", f"{cfgname}: after refusing RRQ {target} more datagrams arrived: {extra[:3]}", replay)
                    after = N.snapshot(sb["root"])
                    diff = N.snap_diff(before, after)
                    if diff:
                        v.violation("C06/rrq-fs-effect", f"{cfgname}: RRQ {target} changed the filesystem: {diff[:3]}", replay)
                else:
                    newc = N.keyed_content(f"up-{cfgname}-{seqno}", rng.choice([0, 1, 150, 512, 2600, 6000]))
                    state = "existing" if target in recv_files else "missing"
                    if state == "existing":
                        state += "-longer" if len(recv_files[target]) > len(newc) else "-shorter-or-equal"
                    if ro:
                        expect = "ERROR2"
                    elif target in recv_files and not ow:
                        expect = "ERROR6"
                    elif is_bad:
                        expect = "unspecified(bad option)"
                    else:
                        expect = "accepted"
                    o2 = tuple((k, (len(newc) if k == "tsize" else val)) for k, val in opts)
                    tr = N.upload(srv.addr, target, newc, o2, sock=s)
                    if expect.startswith("ERROR") and tr.first and tr.first[0] is None:
                        # a missing refusal is only believed after a second, patient request (loaded machine)
                        s.settimeout(3.0)
                        tr = N.upload(srv.addr, target, newc, o2, sock=s)
                    if expect.startswith("ERROR"):
                        code = int(expect[-1])
                        if not tr.error or tr.error[0] != code:
                            v.violation(f"C06/wrq-refusal/{expect}", f"{cfgname}: WRQ {target} ({state}) answered {tr.first} instead of ERROR {code}", replay)
                        elif tr.error[2] != srv.addr:
                            v.violation("C06/refusal-port", f"{cfgname}: refusal came from {tr.error[2]}, not the listening port {srv.port}", replay)
                        extra = quiet_after(s, 0.05)
                        if extra:
                            v.violation("C06/refusal-starts-transfer", f"{cfgname}: after refusing WRQ {target} more datagrams arrived: {extra[:3]}", replay)
                        after = N.snapshot(sb["root"])
                        diff = N.snap_diff(before, after)
                        if diff:
                            v.violation("C06/refusal-fs-effect", f"{cfgname}: refused WRQ {target} changed the filesystem: {diff[:3]}", replay)
                    elif expect.startswith("unspecified"):
                        # the statement does not say what happens to an acceptable request with an un-honourable option;
                        # whatever happened, follow the filesystem so the model stays in step
                        path = os.path.join(sb["rcv"], target)
                        if tr.completed and os.path.exists(path):
                            recv_files[target] = open(path, "rb").read()
                        elif not os.path.exists(path):
                            recv_files.pop(target, None)
                    else:
                        if not tr.completed:
                            v.violation("C06/wrq-accept", f"{cfgname}: WRQ {target} ({state}) should be accepted but: first={tr.first} error={tr.error} note={tr.note}", replay)
                        else:
                            recv_files[target] = newc
                            rel = os.path.relpath(os.path.join(sb["rcv"], target), sb["root"])
                            after = N.snapshot(sb["root"])
                            diff = N.snap_diff(before, after)
                            on_disk = open(os.path.join(sb["rcv"], target), "rb").read() if os.path.exists(os.path.join(sb["rcv"], target)) else None
                            if on_disk != newc:
                                v.violation("C06/overwrite-content" if state.startswith("existing") else "C06/upload-content",
                                            f"{cfgname}: after completed upload of {target} ({state}) the file holds {None if on_disk is None else len(on_disk)} bytes, expected the {len(newc)} new bytes (old tail must not survive)", replay)
                            if [d for d in diff if d[0] != rel]:
                                v.violation("C06/upload-side-effect", f"{cfgname}: upload of {target} changed other paths: {[d for d in diff if d[0] != rel][:3]}", replay)
                key = (cfgname, kind, state, oname, expect)
                distinct.add(key)
                outcomes[expect] = outcomes.get(expect, 0) + 1
                if len(samples) < 4 and expect != "served":
                    samples.append({"config": cfgname, "request": [kind, target, oname], "target_state": state, "expected": expect, "first_reply": str(tr.first)[:120]})
            finally:
                if own_socket:
                    s.close()
            if not srv.alive():
                v.note_inconclusive(f"{cfgname}: server exited (status {srv.exit_status()}) during the sequence: {srv.log_tail(300)}")
                break
        # a download that the client aborts (ERROR after DATA 1) or abandons (silence, timeout 1 s): a read request
        # has no effect on disk however it ends
        if srv.alive():
            before = N.snapshot(sb["root"])
            socks = []
            for how in ("error", "silence"):
                evaluations += 1
                s = N._sock(timeout=1.5)
                socks.append(s)
                tr0 = N.Transfer()
                s.sendto(N.enc_req(N.RRQ, "exist_long.bin", options=[("timeout", 1)]), srv.addr)
                k0, f0, peer = N.recv(s, tr0)
                if k0 == "OACK":
                    s.sendto(N.enc_ack(0), peer)
                    k0, f0, _ = N.recv(s, tr0)
                if k0 == "DATA" and how == "error":
                    s.sendto(N.enc_error(3, b"disk full on the client"), peer)
            __import__("time").sleep(7.5)      # the abandoned transfer gives up after 6 tries
            for s in socks:
                s.close()
            diff = N.snap_diff(before, N.snapshot(sb["root"]))
            if diff:
                v.violation("C06/rrq-fs-effect", f"{cfgname}: downloads of exist_long.bin that the client aborted / abandoned changed the filesystem: {diff[:3]}",
                            {"engine": "net", "config": cfgname, "request": ["RRQ", "exist_long.bin", "aborted with ERROR after DATA 1 / abandoned"], "server_args": srv.args})
            else:
                distinct.add((cfgname, "aborted-download"))
                outcomes["aborted-download-no-effect"] = outcomes.get("aborted-download-no-effect", 0) + 1
        # a client endpoint with a transfer in progress sends a request that must be refused: the refusal still comes, from
        # the listening port, and nothing changes on disk
        if srv.alive():
            busy = []
            busy.append(("RRQ", "missing_busy.bin", 1))
            if ro:
                busy.append(("WRQ", "new_busy.bin", 2))
            elif not ow and recv_files:
                busy.append(("WRQ", sorted(recv_files)[0], 6))
            for kind, target, code in busy:
                evaluations += 1
                s = N._sock(timeout=1.5)
                tr0 = N.Transfer()
                try:
                    s.sendto(N.enc_req(N.RRQ, "exist_long.bin"), srv.addr)
                    k0, f0, peer = N.recv(s, tr0)
                    if k0 != "DATA":
                        v.note_inconclusive(f"{cfgname}: could not open the download that keeps the endpoint busy ({k0})")
                        continue
                    before = N.snapshot(sb["root"])
                    replay = {"engine": "net", "config": cfgname, "request": [kind, target, "from an endpoint whose download of exist_long.bin waits for ACK 1"], "server_args": srv.args}
                    got = None
                    for attempt in range(2):
                        s.sendto(N.enc_req(N.RRQ if kind == "RRQ" else N.WRQ, target), srv.addr)
                        end = __import__("time").time() + (1.5 if attempt == 0 else 4.0)
                        while __import__("time").time() < end and got is None:
                            k1, f1, src1 = N.recv(s, tr0, timeout=max(0.05, end - __import__("time").time()))
                            if k1 == "ERROR":
                                got = (f1["code"], src1)
                        if got:
                            break
                    if got is None or got[0] != code:
                        v.violation(f"C06/busy-endpoint/{kind}-ERROR{code}", f"{cfgname}: {kind} {target} sent by an endpoint with a download in progress was answered {got} instead of ERROR {code}", replay)
                    elif got[1] != srv.addr:
                        v.violation("C06/refusal-port", f"{cfgname}: refusal for a busy endpoint came from {got[1]}, not the listening port {srv.port}", replay)
                    else:
                        distinct.add((cfgname, "busy-endpoint", kind, code))
                        outcomes[f"busy-endpoint-ERROR{code}"] = outcomes.get(f"busy-endpoint-ERROR{code}", 0) + 1
                    s.sendto(N.enc_error(0, b"done"), peer)
                    diff = N.snap_diff(before, N.snapshot(sb["root"]))
                    if diff:
                        v.violation("C06/refusal-fs-effect", f"{cfgname}: refused {kind} {target} from a busy endpoint changed the filesystem: {diff[:3]}", replay)
                finally:
                    s.close()
    return evaluations, distinct, samples, outcomes


def run(tier):
    v = C.Verdict("C06", tier, "exploration")
    ctx = Ctx("C06", tier)
    tftpd = ctx.bins["release"]["tftpd"]
    combos = list(itertools.product([False, True], repeat=5))  # read_only, overwrite, keep, single, distinct
    if tier != "thorough":
        # every combination of (read_only, overwrite, single); keep/distinct alternate; plus two mixed extras
        base = [(ro, ow, (i % 2 == 1), single, (i % 2 == 0)) for i, (ro, ow, single) in enumerate(itertools.product([False, True], repeat=3))]
        combos = base + [(False, True, True, False, False), (True, False, False, True, True)]
    evaluations = 0
    distinct = set()
    samples = []
    outcomes = {}
    import concurrent.futures
    import random
    with concurrent.futures.ThreadPoolExecutor(max_workers=6) as ex:
        futs = [ex.submit(run_config, v, ctx, tftpd, tier, combo, random.Random(C.seed() * 104729 + i)) for i, combo in enumerate(combos)]
        for f in futs:
            e, d, sm, oc = f.result()
            evaluations += e
            distinct |= d
            samples += sm[:1]
            for k, n in oc.items():
                outcomes[k] = outcomes.get(k, 0) + n
    cov = {"evaluations": evaluations, "distinct_nontrivial": len(distinct),
           "rule": "requests to real tftpd servers (one per configuration, kept alive for the whole seeded request order so earlier uploads are part of the history); oracle = decision table of the property statement applied to a model of both directories; whole-sandbox snapshot (type,size,sha1) diffed around every request; refusals must come from the listening port and be followed by silence. distinct = distinct (configuration, request kind, target state, option set, expected outcome).",
           "samples": samples, "exhaustive": False, "configurations": len(combos), "expected_outcomes_seen": outcomes}
    return v.finish(cov, ["model client and snapshot oracle (vlib/net.py) are trusted", "release build of tftpd from the working tree, hooks off"])
