"""Shared plumbing for ./check: paths, builds, evidence, verdicts, known findings."""
import hashlib
import json
import os
import shutil
import subprocess
import sys
import time

VERIF = os.path.dirname(os.path.dirname(os.path.abspath(__file__)))
REPO = os.path.abspath(os.environ.get("VERIF_REPO", "/repo"))
TARGET = os.path.join(VERIF, "target")
WORK = os.path.join(VERIF, "work")
# evidence / replays of runs against a substituted tree (mutation self-tests) must not overwrite those of /repo
_SUB = REPO != "/repo"
EVIDENCE = os.path.join(VERIF, "evidence") if not _SUB else os.path.join(WORK, "evidence-" + hashlib.sha1(REPO.encode()).hexdigest()[:10])
REPLAYS = os.path.join(VERIF, "replays") if not _SUB else os.path.join(WORK, "replays-" + hashlib.sha1(REPO.encode()).hexdigest()[:10])
NCPU = min(16, os.cpu_count() or 4)

EXIT_OK, EXIT_VIOLATION, EXIT_INCONCLUSIVE = 0, 1, 2


def seed():
    try:
        return int(os.environ.get("VERIF_SEED", "1"))
    except ValueError:
        return 1


def repo_tag():
    """distinguishes build directories of different trees under test"""
    if REPO == "/repo":
        return ""
    return "-" + hashlib.sha1(REPO.encode()).hexdigest()[:10]


def cargo_env(extra=None):
    env = dict(os.environ)
    env["CARGO_NET_OFFLINE"] = "true"
    env.pop("RUSTFLAGS", None)
    if extra:
        env.update(extra)
    return env


class BuildError(Exception):
    pass


def run_build(cmd, env, cwd, what):
    t0 = time.time()
    p = subprocess.run(cmd, env=env, cwd=cwd, stdout=subprocess.PIPE, stderr=subprocess.STDOUT, text=True)
    if p.returncode != 0:
        sys.stderr.write(p.stdout[-6000:])
        raise BuildError(f"build of {what} failed (exit {p.returncode})")
    return time.time() - t0


def build_harness(flavor="release"):
    """Builds /verif/harness against the tree under test (hooks on). Returns path of vh."""
    tdir = os.path.join(TARGET, "h" + repo_tag())
    cmd = ["cargo", "build", "--offline", "--profile", flavor]
    if REPO != "/repo":
        cmd += ["--config", f'paths=["{REPO}"]']
    run_build(cmd, cargo_env({"CARGO_TARGET_DIR": tdir}), os.path.join(VERIF, "harness"), f"harness[{flavor}]")
    return os.path.join(tdir, flavor, "vh")


def build_bins(flavor="release"):
    """Builds tftpd and tftpc from the tree under test (hooks OFF). Returns dict name->path."""
    tdir = os.path.join(TARGET, f"bin-{flavor}" + repo_tag())
    env = {"CARGO_TARGET_DIR": tdir}
    if flavor == "checked":
        env["RUSTFLAGS"] = "-C overflow-checks=on -C debug-assertions=on"
    cmd = ["cargo", "build", "--offline", "--release", "--features", "client", "--manifest-path", os.path.join(REPO, "Cargo.toml")]
    run_build(cmd, cargo_env(env), REPO, f"tftpd/tftpc[{flavor}]")
    return {"tftpd": os.path.join(tdir, "release", "tftpd"), "tftpc": os.path.join(tdir, "release", "tftpc")}


def tree_hash():
    h = hashlib.sha1()
    src = os.path.join(REPO, "src")
    for name in sorted(os.listdir(src)):
        with open(os.path.join(src, name), "rb") as f:
            h.update(name.encode())
            h.update(f.read())
    return h.hexdigest()[:12]


def fresh_workdir(name):
    d = os.path.join(WORK, name + repo_tag())
    shutil.rmtree(d, ignore_errors=True)
    os.makedirs(d, exist_ok=True)
    return d


def load_known():
    p = os.path.join(VERIF, "known_findings.json")
    if not os.path.exists(p):
        return []
    with open(p) as f:
        return json.load(f).get("findings", [])


class Verdict:
    """Collects violations / inconclusive notes for one property run and finishes it."""

    def __init__(self, pid, tier, level):
        self.pid, self.tier, self.level = pid, tier, level
        self.t0 = time.time()
        self.violations = []  # dict(signature, summary, replay(dict))
        self.inconclusive = []
        self.known = [k for k in load_known() if k.get("property") == pid and k.get("status") == "known"]
        self.known_hit = {}

    def violation(self, signature, summary, replay):
        for k in self.known:
            if k["signature"] == signature:
                self.known_hit.setdefault(signature, {"entry": k, "count": 0, "example": summary})["count"] += 1
                return
        self.violations.append({"signature": signature, "summary": summary, "replay": replay})

    def enough(self, n=40):
        """a check that has already collected plenty of violations stops exploring (each failing case costs timeouts)"""
        return len(self.violations) >= n

    def note_inconclusive(self, why):
        self.inconclusive.append(why)

    def finish(self, coverage, assumptions):
        os.makedirs(EVIDENCE, exist_ok=True)
        os.makedirs(REPLAYS, exist_ok=True)
        wall = time.time() - self.t0
        coverage = dict(coverage)
        coverage["known_findings_matched"] = {s: v["count"] for s, v in self.known_hit.items()}
        coverage["inconclusive_cases"] = self.inconclusive[:20]
        coverage["tree_hash"] = tree_hash()
        ev = {
            "property_id": self.pid,
            "tier": self.tier,
            "seed": seed(),
            "level": self.level,
            "coverage": coverage,
            "assumptions": assumptions,
            "wall_s": round(wall, 2),
            "violations": len(self.violations),
        }
        with open(os.path.join(EVIDENCE, f"{self.pid}.json"), "w") as f:
            json.dump(ev, f, indent=1, default=str)
        for s, v in self.known_hit.items():
            print(f"KNOWN-FINDING: property={self.pid} {v['entry'].get('what', s)} [{v['count']} occurrence(s); signature {s}]")
        if self.violations:
            seen = {}
            for i, v in enumerate(self.violations):
                if v["signature"] in seen:
                    seen[v["signature"]]["count"] += 1
                    continue
                path = os.path.join(REPLAYS, f"{self.pid}-{len(seen)}.json")
                rec = {"path": path, "count": 1, "v": v}
                seen[v["signature"]] = rec
            for sig, rec in list(seen.items())[:12]:
                v = rec["v"]
                with open(rec["path"], "w") as f:
                    json.dump({"property": self.pid, "signature": sig, "occurrences": rec["count"], "summary": v["summary"], "replay": v["replay"]}, f, indent=1, default=str)
                print(f"VIOLATION property={self.pid} replay={rec['path']}")
                print(f"  {sig} (x{rec['count']}): {v['summary'][:400]}")
            print(f"{self.pid}: VIOLATED — {len(self.violations)} violation(s), {len(seen)} distinct signature(s); {wall:.1f}s")
            return EXIT_VIOLATION
        if self.inconclusive:
            for w in self.inconclusive[:10]:
                print(f"INCONCLUSIVE property={self.pid}: {w}")
            print(f"{self.pid}: INCONCLUSIVE; {wall:.1f}s")
            return EXIT_INCONCLUSIVE
        print(f"{self.pid}: held on everything observed — {coverage.get('evaluations')} evaluations, {coverage.get('distinct_nontrivial')} distinct non-trivial; {wall:.1f}s")
        return EXIT_OK
