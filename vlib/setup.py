from . import common as C


def run():
    for fl in ("release", "checked"):
        C.build_harness(fl)
        C.build_bins(fl)
    print("setup ok")
    return 0
