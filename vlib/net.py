"""E2 — real tftpd/tftpc processes on loopback: server launcher, model client, sandbox snapshots."""
import hashlib
import os
import select
import shutil
import signal
import socket
import struct
import subprocess
import time

RRQ, WRQ, DATA, ACK, ERROR, OACK = 1, 2, 3, 4, 5, 6


# ----------------------------------------------------------------- wire (independent python codec)
def enc_req(op, name, mode=b"octet", options=()):
    if isinstance(name, str):
        name = name.encode("utf-8", "surrogateescape")
    b = struct.pack(">H", op) + name + b"\0" + mode + b"\0"
    for k, v in options:
        if isinstance(k, str):
            k = k.encode()
        if not isinstance(v, bytes):
            v = str(v).encode()
        b += k + b"\0" + v + b"\0"
    return b


def enc_data(blk, payload):
    return struct.pack(">HH", DATA, blk & 0xFFFF) + payload


def enc_ack(blk):
    return struct.pack(">HH", ACK, blk & 0xFFFF)


def enc_error(code, msg=b"err"):
    return struct.pack(">HH", ERROR, code) + msg + b"\0"


def enc_oack(options=()):
    b = struct.pack(">H", OACK)
    for k, v in options:
        b += k.encode() + b"\0" + str(v).encode() + b"\0"
    return b


def dec(buf):
    """returns (kind, fields) ; kind in {'DATA','ACK','ERROR','OACK','RRQ','WRQ','?'}"""
    if len(buf) < 2:
        return "?", {}
    op = struct.unpack(">H", buf[:2])[0]
    if op == DATA and len(buf) >= 4:
        return "DATA", {"blk": struct.unpack(">H", buf[2:4])[0], "data": buf[4:]}
    if op == ACK and len(buf) >= 4:
        return "ACK", {"blk": struct.unpack(">H", buf[2:4])[0]}
    if op == ERROR and len(buf) >= 4:
        return "ERROR", {"code": struct.unpack(">H", buf[2:4])[0], "msg": buf[4:].split(b"\0")[0].decode("utf-8", "replace")}
    if op == OACK:
        parts = buf[2:].split(b"\0")
        opts = []
        for i in range(0, len(parts) - 1, 2):
            opts.append((parts[i].decode("utf-8", "replace").lower(), parts[i + 1].decode("utf-8", "replace")))
        return "OACK", {"options": opts}
    if op in (RRQ, WRQ):
        return ("RRQ" if op == RRQ else "WRQ"), {}
    return "?", {"op": op}


# ----------------------------------------------------------------- content
def keyed_content(key, length):
    """bytes that identify (key, offset): 8-byte words = sha1(key)[:4] + 4-byte word index"""
    tag = hashlib.sha1(str(key).encode()).digest()[:4]
    nwords = (length + 7) // 8
    out = bytearray()
    for i in range(nwords):
        out += tag + struct.pack(">I", i & 0xFFFFFFFF)
    return bytes(out[:length])


def degenerate_content(key, length, kind):
    """content classes a content-sensitive shortcut would treat specially: 'zeros', 'ones', 'sparse' (keyed bytes with
    zero runs aligned to 512-byte sectors, whole 64 KiB holes, and a zero tail)"""
    if kind == "zeros":
        return bytes(length)
    if kind == "ones":
        return b"\xff" * length
    base = bytearray(keyed_content(key, length))
    h = hashlib.sha1(("sparse" + str(key)).encode()).digest()
    for sec in range((length + 511) // 512):
        region = sec // 128
        if h[region % 20] & 1 or h[(sec * 7) % 20] & 2:
            base[sec * 512:(sec + 1) * 512] = bytes(len(base[sec * 512:(sec + 1) * 512]))
    tail = min(length, 8192 + length % 8192)
    base[length - tail:] = bytes(tail)
    return bytes(base)


# ----------------------------------------------------------------- sandbox
def snapshot(root):
    snap = {}
    for dp, dns, fns in os.walk(root):
        for d in dns:
            p = os.path.join(dp, d)
            snap[os.path.relpath(p, root) + "/"] = ("dir",)
        for f in fns:
            p = os.path.join(dp, f)
            try:
                if os.path.islink(p):
                    snap[os.path.relpath(p, root)] = ("link", os.readlink(p))
                else:
                    with open(p, "rb") as fh:
                        data = fh.read()
                    snap[os.path.relpath(p, root)] = ("file", len(data), hashlib.sha1(data).hexdigest())
            except OSError as e:
                snap[os.path.relpath(p, root)] = ("err", str(e))
    return snap


def snap_diff(a, b):
    d = []
    for k in sorted(set(a) | set(b)):
        if a.get(k) != b.get(k):
            d.append((k, a.get(k), b.get(k)))
    return d


# ----------------------------------------------------------------- server process
def free_udp_port(family=socket.AF_INET):
    s = socket.socket(family, socket.SOCK_DGRAM)
    s.bind(("::1" if family == socket.AF_INET6 else "127.0.0.1", 0))
    p = s.getsockname()[1]
    s.close()
    return p


class Server:
    def __init__(self, binary, directory, *, single=False, read_only=False, overwrite=False, keep=False, send_dir=None, recv_dir=None,
                 dup=None, ip="127.0.0.1", logdir=None, strace=None, extra=(), tag="srv", shuffle=None, d_last=False, cwd=None, fsize_limit=None, pid_limit=None):
        self.binary, self.ip = binary, ip
        self.fsize_limit = fsize_limit
        self.pid_limit = pid_limit
        self.family = socket.AF_INET6 if ":" in ip else socket.AF_INET
        self.args = ["-i", ip, "-d", directory]
        if send_dir:
            self.args += ["-sd", send_dir]
        if recv_dir:
            self.args += ["-rd", recv_dir]
        if single:
            self.args.append("-s")
        if read_only:
            self.args.append("-r")
        if overwrite:
            self.args.append("--overwrite")
        if keep:
            self.args.append("--keep-on-error")
        if dup is not None:
            self.args += ["--duplicate-packets", str(dup)]
        self.args += list(extra)
        if d_last:
            # `-d` after the explicit send / receive directories must not override them
            i = self.args.index("-d")
            dpair = self.args[i:i + 2]
            del self.args[i:i + 2]
            self.args += dpair
        elif shuffle is not None:
            # flag order must not matter: permute the option groups (a value stays behind its flag)
            groups, i = [], 0
            takes = {"-i", "-d", "-sd", "-rd", "--duplicate-packets", "-p"}
            while i < len(self.args):
                if self.args[i] in takes:
                    groups.append(self.args[i:i + 2])
                    i += 2
                else:
                    groups.append(self.args[i:i + 1])
                    i += 1
            shuffle.shuffle(groups)
            self.args = [a for g in groups for a in g]
        self.single = single
        self.cwd = cwd
        self.logdir = logdir or directory
        self.tag = tag
        self.strace = strace
        self.proc = None
        self.port = None
        self.log_path = None

    @property
    def addr(self):
        return (self.ip, self.port)

    def start(self, wait=True):
        for attempt in range(5):
            self.port = free_udp_port(self.family)
            self.log_path = os.path.join(self.logdir, f"{self.tag}-{self.port}.log")
            cmd = [self.binary] + self.args + ["-p", str(self.port)]
            if self.strace:
                cmd = ["strace", "-f", "-qq", "-o", self.strace, "-e",
                       "trace=open,openat,creat,unlink,unlinkat,rename,renameat,renameat2,mkdir,mkdirat,truncate,ftruncate,link,linkat,symlink,symlinkat,rmdir"] + cmd
            if self.pid_limit:
                # own PID namespace with a small pid_max: the server cannot have more than about that many threads
                # (thread creation fails with EAGAIN, memory is not affected)
                cmd = ["unshare", "-p", "-f", "--mount-proc", "sh", "-c", f'echo {int(self.pid_limit)} > /proc/sys/kernel/pid_max && exec "$0" "$@"'] + cmd
            self.logf = open(self.log_path, "wb")
            pre = None
            out = self.logf
            if self.fsize_limit is not None:
                # storage fault: no file may grow beyond the limit; a write crossing it is short, the next one fails with
                # EFBIG (SIGXFSZ ignored, which is inherited across exec). The log goes to /dev/null, it is a file too.
                lim = self.fsize_limit

                def pre():
                    import resource
                    signal.signal(signal.SIGXFSZ, signal.SIG_IGN)
                    resource.setrlimit(resource.RLIMIT_FSIZE, (lim, lim))
                out = subprocess.DEVNULL
            # own process group: under strace the server is a grandchild, stop() must take it down too
            self.proc = subprocess.Popen(cmd, stdout=out, stderr=subprocess.STDOUT, cwd=self.cwd or self.logdir, start_new_session=True, preexec_fn=pre)
            if not wait:
                return self
            if self.wait_ready():
                return self
            self.stop()
        raise RuntimeError("tftpd did not come up")

    def wait_ready(self, timeout=10.0):
        s = socket.socket(self.family, socket.SOCK_DGRAM)
        s.settimeout(0.2)
        end = time.time() + timeout
        try:
            while time.time() < end:
                if self.proc.poll() is not None:
                    return False
                try:
                    s.sendto(enc_req(RRQ, "__ready_probe_does_not_exist__"), self.addr)
                    buf, src = s.recvfrom(2048)
                    if dec(buf)[0] == "ERROR":
                        return True
                except (socket.timeout, ConnectionRefusedError, OSError):
                    time.sleep(0.02)
            return False
        finally:
            s.close()

    def alive(self):
        return self.proc is not None and self.proc.poll() is None

    def exit_status(self):
        return None if self.proc is None else self.proc.poll()

    def log_tail(self, n=2000):
        try:
            self.logf.flush()
            with open(self.log_path, "rb") as f:
                return f.read()[-n:].decode("utf-8", "replace")
        except OSError:
            return ""

    def stop(self):
        if self.proc is not None:
            if self.proc.poll() is None:
                try:
                    os.killpg(self.proc.pid, signal.SIGTERM if self.strace else signal.SIGKILL)
                except OSError:
                    pass
                try:
                    self.proc.wait(timeout=3)
                except subprocess.TimeoutExpired:
                    try:
                        os.killpg(self.proc.pid, signal.SIGKILL)
                    except OSError:
                        pass
                    self.proc.wait(timeout=3)
            elif self.strace:
                try:
                    os.killpg(self.proc.pid, signal.SIGKILL)
                except OSError:
                    pass
            try:
                self.logf.close()
            except Exception:
                pass

    def __enter__(self):
        return self if self.proc is not None else self.start()

    def __exit__(self, *a):
        self.stop()


def wait_readable(socks, timeout):
    """select() without its descriptor-number limit (poll): the sockets of `socks` that are readable within `timeout` s"""
    p = select.poll()
    by_fd = {}
    for s in socks:
        try:
            p.register(s.fileno(), select.POLLIN)
            by_fd[s.fileno()] = s
        except (OSError, ValueError):
            pass
    if not by_fd:
        time.sleep(max(0.0, min(timeout, 0.05)))
        return []
    return [by_fd[fd] for fd, ev in p.poll(max(0.0, timeout) * 1000.0) if fd in by_fd]


# ----------------------------------------------------------------- model client
class Transfer:
    def __init__(self):
        self.first = None        # (kind, fields, src) of the first reply
        self.oack = None         # dict name -> value (str) if an OACK was received
        self.error = None        # (code, msg, src)
        self.blocks = []         # download: (abs_index, blk, len, src_port, t)
        self.data = bytearray()  # download: reassembled bytes
        self.acks = []           # upload: (blk, src_port, t)
        self.completed = False
        self.datagrams = []      # every datagram received: (t, src, raw[:64], len)
        self.sources = set()
        self.note = ""
        self.timeouts = 0


def _sock(family=socket.AF_INET, timeout=2.0, ip=None, port=0):
    s = socket.socket(family, socket.SOCK_DGRAM)
    s.bind((ip or ("::1" if family == socket.AF_INET6 else "127.0.0.1"), port))
    s.settimeout(timeout)
    return s


def recv(sock, tr, timeout=None):
    if timeout is not None:
        sock.settimeout(timeout)
    try:
        buf, src = sock.recvfrom(70000)
    except socket.timeout:
        tr.timeouts += 1
        return None, None, None
    tr.datagrams.append((time.time(), src[:2], buf[:64], len(buf)))
    tr.sources.add(src[:2])
    kind, f = dec(buf)
    return kind, f, src[:2]


def download(server_addr, name, options=(), *, family=socket.AF_INET, timeout=2.0, sock=None, ack_every=None,
             drop_blocks=(), dup_acks=(), max_blocks=10_000_000, first_only=False, mode=b"octet"):
    """RFC 1350/2347/7440 client. drop_blocks: absolute block indices whose first arrival is ignored
    (emulated loss); dup_acks: absolute indices whose ACK is sent twice."""
    tr = Transfer()
    s = sock or _sock(family, timeout)
    own = sock is None
    try:
        s.sendto(enc_req(RRQ, name, mode, options), server_addr)
        kind, f, src = recv(s, tr)
        for _ in range(4):
            if kind != "ACK":
                break
            # an ACK is no answer to a read request: a datagram of an earlier transfer on this host whose client port was
            # re-used; wait for the real answer
            tr.note += "stray ACK before the first reply ignored; "
            kind, f, src = recv(s, tr)
        tr.first = (kind, f, src)
        if kind is None:
            tr.note = "no reply"
            return tr
        b, w = 512, 1
        peer = src
        if kind == "ERROR":
            tr.error = (f["code"], f["msg"], src)
            return tr
        if kind == "OACK":
            tr.oack = dict(f["options"])
            tr.oack_list = f["options"]
            try:
                b = int(tr.oack.get("blksize", 512))
                w = int(tr.oack.get("windowsize", 1))
            except ValueError:
                tr.note = "non-numeric OACK value"
                return tr
            if first_only:
                s.sendto(enc_error(0, b"probe done"), peer)
                return tr
            s.sendto(enc_ack(0), peer)
            kind, f, src = recv(s, tr)
        elif first_only:
            if kind == "DATA":
                s.sendto(enc_error(0, b"probe done"), peer)
            return tr
        expected = 1
        since = 0
        dropped = set()
        ack_n = ack_every or w
        while True:
            if kind is None:
                if tr.timeouts > 6:
                    tr.note = "gave up after timeouts"
                    return tr
                s.sendto(enc_ack(expected - 1), peer)
                kind, f, src = recv(s, tr)
                continue
            if src != peer:
                tr.note += f"datagram from foreign source {src}; "
                kind, f, src = recv(s, tr)
                continue
            if kind == "ERROR":
                tr.error = (f["code"], f["msg"], src)
                return tr
            if kind == "DATA":
                blk = f["blk"]
                if blk == expected & 0xFFFF:
                    if expected in drop_blocks and expected not in dropped:
                        dropped.add(expected)
                    else:
                        tr.blocks.append((expected, blk, len(f["data"]), src[1], time.time()))
                        tr.data += f["data"]
                        since += 1
                        final = len(f["data"]) < b
                        if final or since >= ack_n:
                            s.sendto(enc_ack(blk), peer)
                            if expected in dup_acks:
                                s.sendto(enc_ack(blk), peer)
                            since = 0
                        expected += 1
                        if final:
                            tr.completed = True
                            return tr
                        if expected > max_blocks:
                            tr.note = "max blocks"
                            return tr
                elif ((expected - 1 - blk) & 0xFFFF) < 32768:
                    s.sendto(enc_ack(expected - 1), peer)   # duplicate
                else:
                    if since != -1:
                        s.sendto(enc_ack(expected - 1), peer)  # gap, once
                        since = 0
            kind, f, src = recv(s, tr)
    finally:
        if own:
            s.close()


def upload(server_addr, name, data, options=(), *, family=socket.AF_INET, timeout=2.0, sock=None, drop_first_send=(), dup_blocks=(), mode=b"octet", stop_after=None, on_ack=None):
    """uploads `data`; drop_first_send: absolute block indices whose first transmission is withheld;
    stop_after: stop silently after that many blocks were acknowledged."""
    tr = Transfer()
    s = sock or _sock(family, timeout)
    own = sock is None
    try:
        s.sendto(enc_req(WRQ, name, mode, options), server_addr)
        kind, f, src = recv(s, tr)
        for _ in range(4):
            if kind != "DATA":
                break
            # DATA is no answer to a write request (see download)
            tr.note += "stray DATA before the first reply ignored; "
            kind, f, src = recv(s, tr)
        tr.first = (kind, f, src)
        if kind is None:
            tr.note = "no reply"
            return tr
        peer = src
        b, w = 512, 1
        if kind == "ERROR":
            tr.error = (f["code"], f["msg"], src)
            return tr
        if kind == "OACK":
            tr.oack = dict(f["options"])
            tr.oack_list = f["options"]
            try:
                b = int(tr.oack.get("blksize", 512))
                w = int(tr.oack.get("windowsize", 1))
            except ValueError:
                tr.note = "non-numeric OACK value"
                return tr
        elif kind != "ACK" or f["blk"] != 0:
            tr.note = f"unexpected first reply {kind} {f}"
            return tr
        n = len(data) // b + 1
        base = 1
        withheld = set()
        retries = 0
        while True:
            last = min(base + w - 1, n)
            for a in range(base, last + 1):
                if a in drop_first_send and a not in withheld:
                    withheld.add(a)
                    continue
                pkt = enc_data(a, data[(a - 1) * b:a * b])
                s.sendto(pkt, peer)
                if a in dup_blocks:
                    s.sendto(pkt, peer)
            # wait for an ACK that advances
            while True:
                kind, f, src = recv(s, tr)
                if kind is None:
                    retries += 1
                    if retries > 6:
                        tr.note = "gave up after timeouts"
                        return tr
                    break
                if src != peer:
                    tr.note += f"datagram from foreign source {src}; "
                    continue
                if kind == "ERROR":
                    tr.error = (f["code"], f["msg"], src)
                    return tr
                if kind == "ACK":
                    tr.acks.append((f["blk"], src[1], time.time()))
                    if on_ack is not None:
                        on_ack(f["blk"], base, b)
                    d = (f["blk"] - base) & 0xFFFF
                    if d < (last - base + 1):
                        base = base + d + 1
                        retries = 0
                        if base > n:
                            tr.completed = True
                            return tr
                        if stop_after is not None and base > stop_after:
                            tr.note = "stopped on purpose"
                            return tr
                        break
    finally:
        if own:
            s.close()


def probe(server, probe_name, probe_content, timeout=3.0):
    """liveness probe: a canonical RRQ must be answered with exactly the file's first block from the right port"""
    for attempt in range(3):
        tr = download(server.addr, probe_name, (), family=server.family, timeout=timeout)
        if tr.completed and bytes(tr.data) == probe_content:
            src_ports = {p for (_, _, _, p, _) in tr.blocks}
            if server.single and src_ports != {server.port}:
                return False, f"single-port probe answered from {src_ports}"
            return True, ""
        if not server.alive():
            return False, f"process exited with status {server.exit_status()}"
    return False, f"probe not answered correctly: first={tr.first} note={tr.note} completed={tr.completed} len={len(tr.data)}"


def udp_counters():
    """(RcvbufErrors, InErrors) summed over Udp and Udp6 — kernel receive-buffer overruns are environment faults"""
    tot = [0, 0]
    for path, key in (("/proc/net/snmp", "Udp:"), ("/proc/net/snmp6", None)):
        try:
            with open(path) as f:
                lines = f.read().splitlines()
        except OSError:
            continue
        if key:
            rows = [l.split() for l in lines if l.startswith(key)]
            if len(rows) >= 2:
                hdr, val = rows[0], rows[1]
                for i, h in enumerate(hdr):
                    if h == "RcvbufErrors":
                        tot[0] += int(val[i])
                    if h == "InErrors":
                        tot[1] += int(val[i])
        else:
            for l in lines:
                p = l.split()
                if len(p) == 2 and p[0] == "Udp6RcvbufErrors":
                    tot[0] += int(p[1])
                if len(p) == 2 and p[0] == "Udp6InErrors":
                    tot[1] += int(p[1])
    return tuple(tot)
