"""C09 — option negotiation: OACK truthful, transfer uses exactly the acknowledged values (real tftpd)."""
import concurrent.futures
import itertools
import os
import random
import socket
import time

from . import common as C
from . import net as N
from .netcommon import Ctx, write

VALUES = {
    "blksize": ["0", "7", "8", "9", "511", "512", "513", "1428", "65463", "65464", "65465", "65536", "4294967296"],
    "windowsize": ["0", "1", "2", "64", "65535", "65536", "4294967296"],
    "timeout": ["0", "1", "2", "255"],
    "tsize": ["0", "12345", "1099511627776"],
}
SPELL = {"blksize": ["blksize", "BLKSIZE", "BlkSize"], "windowsize": ["windowsize", "WINDOWSIZE", "WindowSize"], "timeout": ["timeout", "TIMEOUT", "TimeOut"], "tsize": ["tsize", "TSIZE", "tSiZe"]}
UNKNOWN = [("multicast", ""), ("rollover", "0"), ("x-unknown", "abc"), ("blksize2", "512")]


def honourable(opt, val):
    n = int(val)
    if opt == "blksize":
        return 8 <= n <= 65464
    if opt == "windowsize":
        return 1 <= n <= 65535
    if opt == "timeout":
        return n >= 1
    return True


def check_first_reply(v, cfg, kind, req_opts, file_len, first, addr_ok, replay):
    """req_opts: list of (lowercase recognised name or None for unknown, value str)"""
    rec = [(k, val) for k, val in req_opts if k]
    bad = [(k, val) for k, val in rec if not honourable(k, val)]
    k0, f, src = first
    if k0 is None:
        if not bad:
            v.violation(f"C09/no-reply/{kind}", f"{cfg}: {kind} with honourable options {rec} got no reply", replay)
        return "no-reply"
    if k0 == "ERROR":
        if not bad:
            v.violation(f"C09/error-reply/{kind}", f"{cfg}: {kind} with honourable options {rec} was refused: {f}", replay)
        return "error"
    if k0 == "OACK":
        acked = f["options"]
        names = [a for a, _ in acked]
        if not rec:
            v.violation("C09/oack-without-options", f"{cfg}: OACK {acked} although the request carried no recognised option", replay)
        req = {}
        for k, val in rec:
            req.setdefault(k, []).append(int(val))
        for a, aval in acked:
            if a not in req:
                v.violation("C09/oack-unrequested-option", f"{cfg}: OACK lists {a}={aval}, which was not requested ({rec})", replay)
                continue
            try:
                n = int(aval)
            except ValueError:
                v.violation("C09/oack-non-numeric", f"{cfg}: OACK value {a}={aval!r}", replay)
                continue
            if a == "tsize":
                want = file_len if kind == "RRQ" else req[a][-1]
                if n != want and n not in req[a] if kind == "WRQ" else n != want:
                    v.violation(f"C09/tsize/{kind}", f"{cfg}: OACK tsize={n}, expected {want}", replay)
            else:
                if not honourable(a, aval):
                    v.violation(f"C09/acknowledged-unhonourable/{a}", f"{cfg}: OACK acknowledges {a}={aval} (requested {req[a]})", replay)
                if n > max(req[a]):
                    v.violation(f"C09/oack-exceeds-request/{a}", f"{cfg}: OACK {a}={n} exceeds the requested {req[a]}", replay)
        return "oack"
    # plain reply
    if rec and not bad:
        v.violation(f"C09/plain-reply-despite-options/{kind}", f"{cfg}: {kind} with recognised options {rec} answered with plain {k0} {str(f)[:60]}", replay)
    if kind == "RRQ" and not (k0 == "DATA" and f["blk"] == 1):
        v.violation("C09/first-reply", f"{cfg}: RRQ without acknowledged options answered {k0} {str(f)[:60]} instead of DATA 1", replay)
    if kind == "WRQ" and not (k0 == "ACK" and f["blk"] == 0):
        v.violation("C09/first-reply", f"{cfg}: WRQ without acknowledged options answered {k0} {f} instead of ACK 0", replay)
    if kind == "RRQ" and k0 == "DATA" and len(f["data"]) != min(512, file_len):
        v.violation("C09/default-blksize", f"{cfg}: default transfer's first block has {len(f['data'])} bytes (file {file_len})", replay)
    return "plain"


def first_reply(addr, kind, name, wire_opts, patience=0.4):
    s = N._sock(timeout=patience)
    try:
        s.sendto(N.enc_req(N.RRQ if kind == "RRQ" else N.WRQ, name, options=wire_opts), addr)
        tr = N.Transfer()
        k, f, src = N.recv(s, tr)
        if k in ("OACK", "DATA", "ACK"):
            s.sendto(N.enc_error(0, b"probe done"), src)
        return (k, f, src)
    finally:
        s.close()


def measured_download(addr, name, opts, grace=0.08, first_wins=False):
    """returns (oack dict|None, bursts [[(blk,len)]], data, completed, note); an option the OACK lists more than once is
    read as its last (first_wins: first) occurrence"""
    s = N._sock(timeout=1.5)
    tr = N.Transfer()
    try:
        s.sendto(N.enc_req(N.RRQ, name, options=opts), addr)
        k, f, src = N.recv(s, tr)
        if k is None or k == "ERROR":
            return None, [], b"", False, f"first reply {k} {f}"
        peer = src
        b, w, oack = 512, 1, None
        pending = None
        if k == "OACK":
            oack = dict(reversed(f["options"])) if first_wins else dict(f["options"])
            b, w = int(oack.get("blksize", 512)), int(oack.get("windowsize", 1))
            s.sendto(N.enc_ack(0), peer)
        else:
            pending = (k, f, src)
        data = bytearray()
        bursts = []
        expected = 1
        while True:
            burst = []
            final = False
            # collect one window
            while len(burst) < w and not final:
                if pending:
                    k, f, src = pending
                    pending = None
                else:
                    k, f, src = N.recv(s, tr, timeout=1.5)
                if k is None:
                    return oack, bursts + [burst], bytes(data), False, "timeout inside a window"
                if k != "DATA" or src != peer:
                    return oack, bursts + [burst], bytes(data), False, f"unexpected {k} from {src}"
                if f["blk"] != expected & 0xFFFF:
                    return oack, bursts + [burst], bytes(data), False, f"block {f['blk']} while expecting {expected}"
                burst.append((f["blk"], len(f["data"])))
                data += f["data"]
                expected += 1
                final = len(f["data"]) < b
            # grace period: nothing more may arrive before we acknowledge
            extra = []
            s.settimeout(grace)
            try:
                while True:
                    buf, src2 = s.recvfrom(70000)
                    extra.append(N.dec(buf))
            except socket.timeout:
                pass
            bursts.append(burst)
            if extra:
                return oack, bursts, bytes(data), False, f"{len(extra)} datagram(s) beyond the window before any ACK: {[(e[0], e[1].get('blk')) for e in extra][:4]}"
            s.sendto(N.enc_ack(burst[-1][0]), peer)
            if final:
                return oack, bursts, bytes(data), True, ""
    finally:
        s.close()


def retransmit_interval(addr, name, T):
    """withholds the ACK of the first DATA and measures when it is sent again"""
    s = N._sock(timeout=(T or 5) + 7.0)
    tr = N.Transfer()
    try:
        opts = [("timeout", T)] if T else []
        s.sendto(N.enc_req(N.RRQ, name, options=opts), addr)
        k, f, src = N.recv(s, tr)
        if k == "OACK":
            if dict(f["options"]).get("timeout") != str(T):
                return None, f"OACK {f}"
            s.sendto(N.enc_ack(0), src)
            k, f, src = N.recv(s, tr)
        if k != "DATA":
            return None, f"no DATA: {k} {f}"
        t1 = time.monotonic()
        k2, f2, src2 = N.recv(s, tr)
        t2 = time.monotonic()
        if k2 != "DATA" or f2["blk"] != f["blk"]:
            return None, f"no retransmission within {T or 5}+7 s: {k2}"
        s.sendto(N.enc_error(0, b"done"), src)
        return t2 - t1, ""
    finally:
        s.close()


def run(tier):
    v = C.Verdict("C09", tier, "exploration")
    ctx = Ctx("C09", tier)
    tftpd = ctx.bins["release"]["tftpd"]
    thorough = tier == "thorough"
    rng = ctx.rng
    evaluations = 0
    distinct = set()
    samples = []
    classes = {}
    sizes = {"f0.bin": 0, "f1.bin": 1, "f700.bin": 700, "f4096.bin": 4096, "f20000.bin": 20000}
    for single in (False, True):
        sb = ctx.sandbox("c09")
        for n, ln in sizes.items():
            write(os.path.join(sb["srv"], n), N.keyed_content(n, ln))
        cfg = "single" if single else "multi"
        with N.Server(tftpd, sb["srv"], single=single, overwrite=True, logdir=sb["logs"]) as srv:
            # ---- A. first-reply matrix
            reqs = []
            optnames = ["blksize", "timeout", "tsize", "windowsize"]
            for r in range(0, 5):
                for subset in itertools.combinations(optnames, r):
                    # one-at-a-time boundary sweep: vary one option over all its values, others at a benign value
                    benign = {"blksize": "1024", "timeout": "3", "tsize": "0", "windowsize": "4"}
                    if not subset:
                        reqs.append([])
                    for vary in subset:
                        for val in VALUES[vary]:
                            reqs.append([(o, val if o == vary else benign[o]) for o in subset])
            # random orders, spellings, unknown options interleaved
            wire_reqs = []
            for opts in reqs:
                for rep in range(2 if thorough else 1):
                    o = list(opts)
                    rng.shuffle(o)
                    wire, logical = [], []
                    for name, val in o:
                        if rng.random() < 0.3:
                            u = rng.choice(UNKNOWN)
                            wire.append(u)
                            logical.append((None, u[1]))
                        wire.append((rng.choice(SPELL[name]), val))
                        logical.append((name, val))
                    if rng.random() < 0.2:
                        u = rng.choice(UNKNOWN)
                        wire.append(u)
                        logical.append((None, u[1]))
                    wire_reqs.append((wire, logical))
            # long option lists: k unknown options in front of (or around) recognised ones; the request stays below 512 bytes
            for k in (7, 13, 14, 15, 16, 17, 20, 31, 32, 40):
                many = [(f"u{j}", str(j)) for j in range(k)]
                tail = [("blksize", "1024"), ("windowsize", "2"), ("tsize", "0")]
                wire_reqs.append((many + tail, [(None, val) for _, val in many] + tail))
                wire_reqs.append((many[:k // 2] + tail[:1] + many[k // 2:] + tail[1:], [(None, "x")] * (k // 2) + tail[:1] + [(None, "x")] * (k - k // 2) + tail[1:]))
            # unknown-only requests
            for u in UNKNOWN:
                wire_reqs.append(([u], [(None, u[1])]))
            for kind in ("RRQ", "WRQ"):
                if v.enough(100):
                    break

                def ask(iw, kind=kind):
                    i, (wire, logical) = iw
                    name = "f700.bin" if kind == "RRQ" else f"w{i}.bin"
                    return first_reply(srv.addr, kind, name, wire)

                with concurrent.futures.ThreadPoolExecutor(max_workers=12) as ex:
                    firsts = list(ex.map(ask, enumerate(wire_reqs)))
                for i, (wire, logical) in enumerate(wire_reqs):
                    name = "f700.bin" if kind == "RRQ" else f"w{i}.bin"
                    evaluations += 1
                    first = firsts[i]
                    if first[0] is None and all(honourable(k, val) for k, val in logical if k):
                        # a missing reply is only believed after a second, patient attempt (loaded machine)
                        first = first_reply(srv.addr, kind, name if kind == "RRQ" else f"w{i}_again.bin", wire, patience=3.0)
                    if (kind == "WRQ" and first[0] == "DATA") or (kind == "RRQ" and first[0] == "ACK"):
                        # a datagram of the wrong direction is no answer to this request: it strayed in from an earlier
                        # probe's transfer on this host (a server still retransmitting to a port that was re-used).
                        # Ask again from a fresh socket; only what repeats is the server's answer.
                        classes["foreign-datagram-ignored"] = classes.get("foreign-datagram-ignored", 0) + 1
                        first = first_reply(srv.addr, kind, name if kind == "RRQ" else f"w{i}_again2.bin", wire, patience=3.0)
                    replay = {"engine": "net", "config": cfg, "kind": kind, "name": name, "options_on_wire": wire, "first_reply": str(first)[:200]}
                    outcome = check_first_reply(v, cfg, kind, logical, 700, first, None, replay)
                    if first[0] is not None and single and first[2] != srv.addr:
                        v.violation("C09/port-discipline", f"{cfg}: reply came from {first[2]} in single-port mode", replay)
                    distinct.add((cfg, kind, tuple(logical), outcome))
                    classes[outcome] = classes.get(outcome, 0) + 1
                    if len(samples) < 5 and outcome in ("oack", "no-reply") and len(wire) >= 2:
                        samples.append({"config": cfg, "kind": kind, "options_on_wire": wire, "first_reply": str(first[:2])[:160]})
                if not srv.alive():
                    v.note_inconclusive(f"{cfg}: server died during the first-reply matrix: {srv.log_tail(300)}")
                    break
            time.sleep(0.2)
            # ---- B. transfers use the acknowledged values
            combos = []
            for b in ([8, 9, 512, 1428, 65464] if thorough else [8, 512, 1428]):
                for w in ([1, 2, 3, 16, 64] if thorough else [1, 2, 5]):
                    for fl in {0, 1, b - 1, b, b + 1, w * b, w * b + 1, 2 * w * b + 3}:
                        if fl <= 300_000 and w * min(b, fl + 1) <= 100_000:
                            combos.append((b, w, fl))
            combos.append((8, 40, 8 * 40 * 2 + 5))      # a window larger than any small internal cap
            combos.append((512, 100, 512 * 100 + 1))
            combos.append((None, None, 700))
            combos.append((None, None, 1024))
            combos.append((None, 3, 2000))
            combos.append((1000, None, 3000))
            if not thorough:
                fixed = combos[-6:]
                rest = combos[:-6]
                rng.shuffle(rest)
                combos = rest[:36] + fixed
            for b, w, fl in combos:
                fname = f"t_{b}_{w}_{fl}.bin"
                write(os.path.join(sb["srv"], fname), N.keyed_content(fname, fl))

            def one_transfer(c):
                b, w, fl = c
                fname = f"t_{b}_{w}_{fl}.bin"
                opts = []
                if b:
                    opts.append(("blksize", b))
                if w:
                    opts.append(("windowsize", w))
                if (fl + (b or 0) + (w or 0)) % 2 == 0:
                    opts.insert(len(opts) // 2, ("tsize", 0))   # half of the measured transfers also negotiate tsize
                oack, bursts, data, completed, note = measured_download(srv.addr, fname, opts)
                return c, opts, oack, bursts, data, completed, note

            with concurrent.futures.ThreadPoolExecutor(max_workers=6) as ex:
                for c, opts, oack, bursts, data, completed, note in ex.map(one_transfer, combos):
                    b, w, fl = c
                    evaluations += 1
                    replay = {"engine": "net", "config": cfg, "transfer": {"blksize": b, "windowsize": w, "file_len": fl}, "oack": oack, "bursts": bursts[:6], "note": note}
                    eb = int(oack["blksize"]) if oack and "blksize" in oack else 512
                    ew = int(oack["windowsize"]) if oack and "windowsize" in oack else 1
                    if oack is not None and "tsize" in dict(opts) and oack.get("tsize") != str(fl):
                        v.violation("C09/transfer/tsize", f"{cfg}: OACK tsize {oack.get('tsize')} for a {fl}-byte file", replay)
                    if (b or w) and oack is None:
                        v.violation("C09/transfer/no-oack", f"{cfg}: download with {opts} got no OACK ({note})", replay)
                        continue
                    if not completed:
                        if "beyond the window" in note:
                            v.violation("C09/transfer/window-exceeded", f"{cfg}: blksize={eb} windowsize={ew} file={fl}: {note}", replay)
                        elif "timeout inside a window" in note:
                            # fewer blocks than acknowledged arrived before the server stopped sending: a verdict only if
                            # the same short burst repeats on two serial re-runs (otherwise a stall of the machine)
                            short = [len(bursts[-1]) if bursts else 0]
                            for _ in range(2):
                                _, _, o2, b2, _, comp2, note2 = one_transfer(c)
                                short.append(len(b2[-1]) if (b2 and not comp2 and "timeout inside a window" in note2) else -1)
                            if len(set(short)) == 1 and short[0] >= 0:
                                v.violation("C09/transfer/burst-short", f"{cfg}: acknowledged windowsize {ew} but only {short[0]} block(s) arrive in a burst (3 of 3 runs), file={fl} blksize={eb}", replay)
                            else:
                                v.note_inconclusive(f"{cfg}: measured download {c} stalled once: {note} (bursts on re-runs: {short})")
                        else:
                            v.note_inconclusive(f"{cfg}: measured download {c} did not complete: {note}")
                        continue
                    want = N.keyed_content(f"t_{b}_{w}_{fl}.bin", fl)
                    if data != want:
                        v.violation("C09/transfer/content", f"{cfg}: blksize={eb} windowsize={ew}: content differs", replay)
                    flat = [x for bu in bursts for x in bu]
                    for j, (blk, ln) in enumerate(flat):
                        last = j == len(flat) - 1
                        if (not last and ln != eb) or (last and ln >= eb):
                            v.violation("C09/transfer/block-length", f"{cfg}: acknowledged blksize {eb} but block {blk} has {ln} bytes (last={last})", replay)
                            break
                    nblocks = fl // eb + 1
                    for j, bu in enumerate(bursts):
                        remaining = nblocks - j * ew
                        if len(bu) != min(ew, remaining):
                            v.violation("C09/transfer/burst-length", f"{cfg}: acknowledged windowsize {ew} but burst {j} has {len(bu)} blocks (remaining {remaining})", replay)
                            break
                    distinct.add((cfg, "transfer", c))
                    classes["transfer-measured"] = classes.get("transfer-measured", 0) + 1
            # tsize of names that are symbolic links (tftpboot layouts: boot.img -> real file): the size of what is transferred
            for lname, target in (("link_rel.img", "f20000.bin"), ("link_abs.img", os.path.join(sb["srv"], "f4096.bin")), ("link_chain.img", "link_rel.img")):
                lp = os.path.join(sb["srv"], lname)
                if not os.path.lexists(lp):
                    os.symlink(target, lp)
                true_len = os.path.getsize(lp)
                evaluations += 1
                tr = N.download(srv.addr, lname, [("tsize", 0), ("blksize", 1024)], family=srv.family)
                replay = {"engine": "net", "config": cfg, "symlink": [lname, target], "oack": tr.oack, "completed": tr.completed, "bytes": len(tr.data)}
                if tr.oack is None or not tr.completed:
                    v.note_inconclusive(f"{cfg}: download of symlinked {lname} did not complete ({tr.first and tr.first[0]}, {tr.note}, {tr.error})")
                elif tr.oack.get("tsize") != str(true_len) or len(tr.data) != true_len:
                    v.violation("C09/tsize/symlink", f"{cfg}: RRQ {lname} -> {target}: OACK tsize={tr.oack.get('tsize')}, transferred {len(tr.data)} bytes, true size {true_len}", replay)
                else:
                    distinct.add((cfg, "symlink", lname))
                    classes["tsize-of-symlinked-file"] = classes.get("tsize-of-symlinked-file", 0) + 1
            # a request that repeats an option with different values: the transfer must be consistent with one reading of
            # the OACK (last occurrence, else first occurrence)
            write(os.path.join(sb["srv"], "rep.bin"), N.keyed_content("rep.bin", 6000))
            for opts in ([("blksize", 1024), ("blksize", 512)], [("blksize", 512), ("windowsize", 2), ("BLKSIZE", 1024)],
                         [("windowsize", 4), ("windowsize", 2)], [("windowsize", 1), ("blksize", 600), ("WindowSize", 3)]):
                evaluations += 1
                readings = []
                # an inconsistent outcome is believed only if it repeats on three serial attempts (a stalled machine also
                # produces short bursts)
                for attempt in range(3):
                    for first_wins in (False, True):
                        oack, bursts, data, completed, note = measured_download(srv.addr, "rep.bin", opts, first_wins=first_wins)
                        eb = int(oack["blksize"]) if oack and "blksize" in oack else 512
                        ew = int(oack["windowsize"]) if oack and "windowsize" in oack else 1
                        flat = [x for bu in bursts for x in bu]
                        ok = (completed and data == N.keyed_content("rep.bin", 6000) and all(ln == eb for _, ln in flat[:-1]) and flat[-1][1] < eb
                              and all(len(bu) == min(ew, 6000 // eb + 1 - j * ew) for j, bu in enumerate(bursts)))
                        readings.append({"oack": oack, "first_occurrence_wins": first_wins, "consistent": ok, "note": note, "bursts": bursts[:3]})
                        if ok:
                            break
                    if readings[-1]["consistent"]:
                        break
                if not any(r["consistent"] for r in readings):
                    v.violation("C09/transfer/repeated-option", f"{cfg}: RRQ with {opts}: the transfer matches neither reading of the OACK {readings[0]['oack']} ({readings[0]['note']})",
                                {"engine": "net", "config": cfg, "options": opts, "readings": readings})
                else:
                    distinct.add((cfg, "repeated", tuple(opts)))
                    classes["repeated-option-transfer"] = classes.get("repeated-option-transfer", 0) + 1
            # uploads: ACK pattern follows the acknowledged windowsize / blksize
            for (b, w, fl) in [(8, 1, 20), (512, 2, 2000), (512, 3, 512 * 3), (1428, 4, 10000), (None, None, 1300), (8, 5, 8 * 5 + 3)]:
                evaluations += 1
                opts = []
                if b:
                    opts.append(("blksize", b))
                if w:
                    opts.append(("windowsize", w))
                content = N.keyed_content(f"up{b}{w}{fl}", fl)
                tr = N.upload(srv.addr, f"up_{b}_{w}_{fl}.bin", content, opts, family=srv.family)
                replay = {"engine": "net", "config": cfg, "upload": {"blksize": b, "windowsize": w, "len": fl}, "acks": [a[0] for a in tr.acks], "first": str(tr.first)}
                eb, ew = b or 512, w or 1
                n = fl // eb + 1
                want_acks = [k for k in range(ew, n + 1, ew)]
                if not want_acks or want_acks[-1] != n:
                    want_acks.append(n)
                if not tr.completed:
                    v.violation("C09/upload/incomplete", f"{cfg}: upload blksize={b} windowsize={w} failed: {tr.note} {tr.error}", replay)
                elif [a[0] for a in tr.acks] != want_acks:
                    v.violation("C09/upload/ack-pattern", f"{cfg}: acknowledged windowsize {ew}: ACKs {[a[0] for a in tr.acks][:10]} expected {want_acks[:10]}", replay)
                else:
                    on_disk = open(os.path.join(sb["srv"], f"up_{b}_{w}_{fl}.bin"), "rb").read()
                    if on_disk != content:
                        v.violation("C09/upload/content", f"{cfg}: uploaded file differs", replay)
                    distinct.add((cfg, "upload", b, w, fl))
            # a duplicated DATA block in the middle of a window: it is re-acknowledged, and from there the receiver again takes
            # exactly the acknowledged number of blocks per window
            for w in (4, 3):
                evaluations += 1
                su = N._sock(srv.family, timeout=1.0)
                tru = N.Transfer()
                body = N.keyed_content(f"dupmid{w}", 512 * (2 + w) + 100)
                su.sendto(N.enc_req(N.WRQ, f"dupmid_{w}.bin", options=[("blksize", 512), ("windowsize", w)]), srv.addr)
                k, f, pu = N.recv(su, tru)
                seen = []
                if k == "OACK" and dict(f["options"]).get("windowsize") == str(w):
                    def blk(i):
                        return N.enc_data(i, body[(i - 1) * 512:i * 512])
                    for i in (1, 2, 2):
                        su.sendto(blk(i), pu)
                    k1, f1, _ = N.recv(su, tru, timeout=1.0)
                    seen.append(("after 1,2,2", k1, f1 and f1.get("blk")))
                    early = None
                    for i in range(3, 3 + w):
                        su.sendto(blk(i), pu)
                        k2, f2, _ = N.recv(su, tru, timeout=0.15 if i < 2 + w else 1.0)
                        seen.append((f"after {i}", k2, f2 and f2.get("blk")))
                        if k2 == "ACK" and i < 2 + w and f2["blk"] > 2:
                            early = (i, f2["blk"])
                    su.sendto(blk(3 + w), pu)           # final, short
                    N.recv(su, tru, timeout=1.0)
                    rp = {"engine": "net", "config": cfg, "scenario": "WRQ, DATA 1,2,2 then in-order blocks", "windowsize": w, "replies": seen}
                    if k1 == "ACK" and f1["blk"] == 2 and early:
                        v.violation("C09/upload/window-after-duplicate", f"{cfg}: acknowledged windowsize {w}; after the duplicate DATA 2 was re-acknowledged, block {early[0]} was acknowledged (ACK {early[1]}) although only {early[0] - 2} in-order block(s) had followed the last ACK", rp)
                    elif k1 == "ACK" and f1["blk"] == 2 and seen[-1][1:] == ("ACK", 2 + w):
                        distinct.add((cfg, "duplicate-mid-window", w))
                        classes["duplicate-mid-window"] = classes.get("duplicate-mid-window", 0) + 1
                    else:
                        v.note_inconclusive(f"{cfg}: duplicate-mid-window scenario (windowsize {w}) took an unexpected course: {seen}")
                su.close()
            # ---- C. retransmission interval (lower bound is the verdict; upper bound is a watchdog)
            Ts = [1, 2, 3, 0, 7, 30] if thorough else [1, 2, 7]
            with concurrent.futures.ThreadPoolExecutor(max_workers=6) as ex:
                for T, (dt, why) in zip(Ts, ex.map(lambda T: retransmit_interval(srv.addr, "f700.bin", T), Ts)):
                    evaluations += 1
                    eff = T or 5
                    slack = max(1.5, 0.1 * eff)
                    if dt is not None and dt > eff + slack:
                        # far later than acknowledged: a verdict only if it repeats on two serial re-runs
                        again = [retransmit_interval(srv.addr, "f700.bin", T)[0] for _ in range(2)]
                        if all(a is not None and a > eff + slack for a in again):
                            v.violation("C09/retransmit-too-late", f"{cfg}: acknowledged timeout {eff}s but DATA 1 was retransmitted only after {dt:.2f}s / {again[0]:.2f}s / {again[1]:.2f}s (3 of 3 runs)", {"engine": "net", "config": cfg, "T": eff, "measured": [dt] + again})
                        elif all(a is not None and a >= eff - 0.05 for a in again):
                            # one late measurement that does not repeat is scheduling noise; two good measurements stand
                            distinct.add((cfg, "retransmit", eff))
                            classes[f"retransmit-T{eff}-late-once"] = round(dt, 3)
                        else:
                            v.note_inconclusive(f"{cfg}: retransmission for T={eff} arrived after {dt:.2f}s once (re-runs {again})")
                    elif dt is None:
                        v.note_inconclusive(f"{cfg}: retransmission timing T={eff}: {why}")
                    elif dt < eff - 0.05:
                        v.violation("C09/retransmit-too-early", f"{cfg}: acknowledged timeout {eff}s but DATA 1 was retransmitted after {dt:.3f}s", {"engine": "net", "config": cfg, "T": eff, "measured": dt})
                    else:
                        distinct.add((cfg, "retransmit", eff))
                        classes[f"retransmit-T{eff}"] = round(dt, 3)
    cov = {"evaluations": evaluations, "distinct_nontrivial": len(distinct),
           "rule": "A: for every subset of {blksize,timeout,tsize,windowsize} each option is swept over its boundary values (others benign), in seeded order / case spelling / with unknown options interleaved, RRQ and WRQ, single and multi port; the first reply is checked: OACK iff a recognised option was sent, only requested names, values <= requested and honourable (blksize 8..65464, windowsize 1..65535, timeout >= 1), tsize = true size (RRQ) / echo (WRQ); requests with an un-honourable value may be dropped, refused or answered without that option. B: measured downloads (client withholds each window's ACK for a grace period) check block lengths and burst lengths against the acknowledged values and RFC 1350 defaults; uploads check the server's ACK pattern. C: retransmission delay >= acknowledged timeout - 50 ms. distinct = distinct (config, kind, logical option list, outcome) + measured transfers.",
           "samples": samples, "exhaustive": False, "outcome_classes": classes}
    return v.finish(cov, ["only the lower bound of the retransmission interval is a verdict; upper bounds are watchdogs", "model client is trusted"])
