"""C03 — directory confinement: names over a path-segment alphabet + mutated names, against real tftpd."""
import itertools
import os
import re
import select
import shutil
import socket
import time

from . import common as C
from . import net as N
from .netcommon import Ctx, write

PREFIXES = ["", "/", "\\", "//", "\\\\", "/\\", "C:\\", "C:/"]
SEGMENTS = ["..", ".", "", "a.txt", "sub", "srv", "srv2", "secret.txt", "etc", "passwd", "...", "..a", "big.bin"]
JOINERS = ["/", "\\"]


def gen_names(maxseg):
    names = []
    for pre in PREFIXES:
        for L in range(1, maxseg + 1):
            for segs in itertools.product(SEGMENTS, repeat=L):
                if L == 1:
                    names.append(pre + segs[0])
                else:
                    for js in itertools.product(JOINERS, repeat=L - 1):
                        s = pre + segs[0]
                        for j, seg in zip(js, segs[1:]):
                            s += j + seg
                        names.append(s)
    return sorted(set(names))


def reference_resolution(name, base):
    """strip leading / and \\, \\ -> /, then ordinary path resolution from `base`"""
    n = name.lstrip("/\\").replace("\\", "/")
    return os.path.normpath(os.path.join(base, n))


def inside(path, directory):
    return path == directory or path.startswith(directory + os.sep)


def build_tree(sb, distinct):
    files = {
        "outside/secret.txt": b"CANARY outside/secret.txt", "outside/etc/passwd": b"CANARY outside/etc/passwd", "secret.txt": b"CANARY root secret.txt",
        "a.txt": b"CANARY root a.txt", "srv2/secret.txt": b"CANARY srv2/secret.txt", "srv2/a.txt": b"CANARY srv2/a.txt", "srv_/a.txt": b"CANARY srv_/a.txt",
        "srv/a.txt": b"INSIDE srv/a.txt", "srv/sub/b.txt": b"INSIDE srv/sub/b.txt", "srv/secret.txt": b"INSIDE srv/secret.txt", "srv/sub/a.txt": b"INSIDE srv/sub/a.txt",
        "srv/big.bin": N.keyed_content("c03-big", 6000), "outside/big.bin": N.keyed_content("c03-big-outside", 6000),
        "srv/...": b"INSIDE srv/...", "srv/..a": b"INSIDE srv/..a", "srv/etc/passwd": b"INSIDE srv/etc/passwd", "srv/srv2/a.txt": b"INSIDE srv/srv2/a.txt",
    }
    if distinct:
        files.update({"srv_up/existing.txt": b"INSIDE srv_up/existing.txt", "srv_up/a.txt": b"INSIDE srv_up/a.txt", "srv_up/sub/keep.txt": b"INSIDE srv_up/sub/keep.txt"})
    for rel, c in files.items():
        write(os.path.join(sb["root"], rel), c)
    return files


def restore(sb, files, initial):
    """puts the sandbox back into its initial state after a batch"""
    cur = N.snapshot(sb["root"])
    for rel in cur:
        if rel not in initial:
            p = os.path.join(sb["root"], rel.rstrip("/"))
            if os.path.isdir(p) and not os.path.islink(p):
                shutil.rmtree(p, ignore_errors=True)
            elif os.path.lexists(p):
                os.unlink(p)
    for rel, c in files.items():
        p = os.path.join(sb["root"], rel)
        if cur.get(rel) != initial.get(rel):
            write(p, c)


def run_batch(srv, batch, kind, tag, patience=0.3):
    """sends all requests of the batch from distinct sockets and drives each mini-transfer. returns list of results"""
    res = []
    socks = {}
    for i, name in enumerate(batch):
        s = socket.socket(socket.AF_INET, socket.SOCK_DGRAM)
        s.bind(("127.0.0.1", 0))
        s.setblocking(False)
        payload = f"UPLOAD {tag} #{i} ".encode() + name.encode("utf-8", "surrogateescape")[:200]
        r = {"name": name, "kind": kind, "reply": None, "data": None, "payload": payload, "error": None, "done": False, "accepted": False, "src": None}
        res.append(r)
        socks[s] = r
        raw = name if isinstance(name, bytes) else name.encode("utf-8", "surrogateescape")
        s.sendto(N.enc_req(N.RRQ if kind == "RRQ" else N.WRQ, raw), srv.addr)
    deadline = time.time() + patience
    pending = set(socks)
    while pending and time.time() < deadline:
        rl = N.wait_readable(list(pending), max(0.0, deadline - time.time()))
        for s in rl:
            r = socks[s]
            try:
                buf, src = s.recvfrom(70000)
            except OSError:
                continue
            deadline = max(deadline, time.time() + 0.12)
            k, f = N.dec(buf)
            if (kind == "WRQ" and k == "DATA") or (kind == "RRQ" and k == "ACK"):
                # wrong direction: no answer to this request but a datagram of an earlier mini-transfer on this host
                # whose client port was re-used (downloads above 4 KiB are cut short and may have DATA in flight)
                r["foreign"] = r.get("foreign", 0) + 1
                continue
            if r["reply"] is None:
                r["reply"] = k
                r["src"] = src[:2]
            if k == "ERROR":
                r["error"] = (f["code"], f["msg"])
                r["done"] = True
                pending.discard(s)
            elif k == "DATA" and kind == "RRQ":
                r["data"] = (r["data"] or b"") + f["data"]
                s.sendto(N.enc_ack(f["blk"]), src)
                if len(f["data"]) < 512:
                    r["done"] = True
                    pending.discard(s)
                elif len(r["data"]) > 4096:
                    s.sendto(N.enc_error(0, b"enough"), src)
                    r["done"] = True
                    pending.discard(s)
            elif k == "ACK" and kind == "WRQ":
                if f["blk"] == 0 and not r["accepted"]:
                    r["accepted"] = True
                    s.sendto(N.enc_data(1, r["payload"]), src)
                elif f["blk"] == 1:
                    r["done"] = True
                    pending.discard(s)
    for s in socks:
        s.close()
    return res


def parse_strace(path, root, send_dir, recv_dir):
    """returns list of (syscall, path, why) for sandbox paths touched outside the allowed directories"""
    bad = []
    seen = 0
    pat = re.compile(r'^\d+\s+(\w+)\((.*)$')
    try:
        lines = open(path, errors="replace").read().splitlines()
    except OSError:
        return bad, 0
    for line in lines:
        m = pat.match(line)
        if not m:
            continue
        call, rest = m.group(1), m.group(2)
        if "ENOENT" in rest and call in ("open", "openat"):
            pass
        paths = re.findall(r'"((?:[^"\\]|\\.)*)"', rest)
        for p in paths:
            if not p.startswith("/"):
                continue
            rp = os.path.normpath(p)
            if not inside(rp, root):
                continue
            seen += 1
            failed = " = -1 " in rest
            if call in ("open", "openat"):
                writing = any(fl in rest for fl in ("O_WRONLY", "O_RDWR", "O_CREAT", "O_TRUNC", "O_APPEND"))
                if writing and not inside(rp, recv_dir) and not failed:
                    bad.append((call, p, "opened for writing outside the receive directory"))
                if not writing and not inside(rp, send_dir) and not failed and rp != root:
                    bad.append((call, p, "opened for reading outside the send directory"))
            elif call in ("creat", "unlink", "unlinkat", "rename", "renameat", "renameat2", "mkdir", "mkdirat", "truncate", "link", "linkat", "symlink", "symlinkat", "rmdir"):
                if not inside(rp, recv_dir) and not failed:
                    bad.append((call, p, "modified outside the receive directory"))
    return bad, seen


def run_config(v, ctx, tftpd, thorough, names, cfgname, dist, ow, rng):
    evaluations = 0
    distinct = set()
    samples = []
    classes = {}
    strace_seen = 0
    sb = ctx.sandbox("c03", distinct=dist)
    if dist:
        # the receive directory shares a string prefix with the send directory (srv / srv_up)
        sb["rcv"] = os.path.join(sb["root"], "srv_up")
        os.makedirs(sb["rcv"], exist_ok=True)
    files = build_tree(sb, dist)
    by_content = {c: rel for rel, c in files.items()}
    # downloads of more than 4096 bytes are cut short by the client with an ERROR (an aborted download): known by prefix
    big = {rel: c for rel, c in files.items() if len(c) > 4096}

    class _ByContent(dict):
        def get(self, key, default=None):
            if key in self:
                return self[key]
            for rel, c in big.items():
                if len(key) > 4096 and c.startswith(key):
                    return rel
            return default
    by_content = _ByContent(by_content)
    initial = N.snapshot(sb["root"])
    send_dir, recv_dir = sb["srv"], sb["rcv"]
    if "nested-relative" in cfgname:
        # served directory `srv2` relative to the working directory <root>/srv: a sibling with the same spelling
        # (<root>/srv2, canaries) sits one level above the working directory
        send_dir = recv_dir = os.path.join(sb["srv"], "srv2")
    # extra names that need the sandbox location
    extra = [os.path.join(sb["root"], rel) for rel in ("outside/secret.txt", "secret.txt", "srv2/a.txt", "srv_/a.txt", "srv/a.txt", "srv/../secret.txt")]
    # absolute paths of real files behind every style of leading separators (a name that stays absolute after
    # normalisation would make Path::join discard the served directory)
    absolute = [os.path.join(sb["root"], rel) for rel in ("outside/secret.txt", "secret.txt", "srv2/a.txt", "srv_/a.txt", "srv/a.txt", "srv_up/a.txt", "srv_up/new.txt", "srv_/new.txt", "srv2/new.txt", "newfile.txt")]
    for ap in absolute:
        for lead in ("//", "///", "\\\\", "/\\", "\\/", "/./", "/.//", "//./", "\\", "/ /"):
            extra.append(lead + ap.lstrip("/"))
            extra.append(lead + ap.lstrip("/").replace("/", "\\"))
        extra.append(ap.replace("/", "\\"))
        extra.append(ap.replace("/", "//"))
    extra += ["../srv2/a.txt", "..\\srv2\\a.txt", "sub/../../secret.txt", "sub\\..\\..\\secret.txt", "../srv/a.txt", "./../secret.txt", "a.txt/../../secret.txt", "....//secret.txt", "..././secret.txt",
              "sub/..", "sub/../a.txt", "%2e%2e/secret.txt", "..%2fsecret.txt", "\u2025/secret.txt", "..\u2215secret.txt", ". ./secret.txt", "../", "..\\", "/..", "\\..", "sub//..//..//secret.txt", "~/secret.txt"]
    # climb k levels above the served directory and re-enter by name: every real file (and a new one) below that ancestor
    for base in {send_dir, recv_dir}:
        anc = base
        for k in range(1, 5):
            anc = os.path.dirname(anc)
            if not inside(anc, sb["root"]):
                break
            for rel in list(files) + ["planted.txt", "srv/planted.txt", "srv2/planted.txt", "srv/srv2/planted.txt"]:
                target = os.path.join(sb["root"], rel)
                if inside(target, anc):
                    nm = "../" * k + os.path.relpath(target, anc)
                    extra.append(nm)
                    if k <= 2:
                        extra.append(nm.replace("/", "\\"))
    # seeded random / mutated names up to the request limit
    rnd = []
    alphabet = ["..", ".", "/", "\\", "a", "srv", "srv2", "secret.txt", "sub", "\u00e9", " ", "%", ":", "*"]
    for _ in range(3000 if thorough else 400):
        n = rng.randint(1, 12)
        s = "".join(rng.choice(alphabet) for _ in range(n))
        if rng.random() < 0.05:
            s = s + "x" * rng.randint(100, 480)
        rnd.append(s[:500])
    all_names = names + extra + rnd
    use_strace = thorough and cfgname in ("shared", "distinct+overwrite")
    strace_path = os.path.join(sb["logs"], "strace.out") if use_strace else None
    slash = "/" if "trailing-slash" in cfgname else ""
    rel = "relative-dir" in cfgname
    dsrv = os.path.relpath(sb["srv"], sb["root"]) if rel else sb["srv"]
    drcv = os.path.relpath(sb["rcv"], sb["root"]) if rel else sb["rcv"]
    cwd = sb["root"] if rel else None
    if "dot-dir" in cfgname:
        dsrv, cwd = rng.choice([".", "./", "./."]), sb["srv"]
    elif "nested-relative" in cfgname:
        dsrv, cwd = rng.choice(["srv2", "./srv2"]), sb["srv"]
    srv = N.Server(tftpd, dsrv + slash, overwrite=ow, keep=("+keep" in cfgname), cwd=cwd, send_dir=(dsrv + slash) if dist else None, recv_dir=(drcv + slash) if dist else None, logdir=sb["logs"], strace=strace_path, shuffle=rng, d_last=(cfgname == "distinct"))
    patient_retries = 0
    unanswered_unjudged = 0
    with srv:
        for kind in ("RRQ", "WRQ"):
            B = 24
            for bi in range(0, len(all_names), B):
                if v.enough(40):
                    break
                batch = all_names[bi:bi + B]
                before = N.snapshot(sb["root"])
                results = run_batch(srv, batch, kind, f"{cfgname}-{kind}-{bi}")
                # let workers of accepted uploads finish writing
                after = N.snapshot(sb["root"])
                diff = N.snap_diff(before, after)
                evaluations += len(batch)
                payloads = {}
                for r in results:
                    name = r["name"]
                    base = send_dir if kind == "RRQ" else recv_dir
                    ref = reference_resolution(name, base)
                    escapes = not inside(ref, base)
                    cls = ("escaping" if escapes else "inside") + ":" + (r["reply"] or "no-reply")
                    classes[cls] = classes.get(cls, 0) + 1
                    distinct.add((cfgname, kind, name))
                    replay = {"engine": "net", "config": cfgname, "kind": kind, "name": name, "reference_resolution": ref, "server_args": srv.args, "reply": r["reply"], "error": r["error"]}
                    if escapes and r["reply"] is None and patient_retries >= 12:
                        # a tree that leaves that many requests unanswered is not retried patiently one by one
                        unanswered_unjudged += 1
                        continue
                    if escapes and r["reply"] is None:
                        patient_retries += 1
                        # no reply inside the batch window: ask again alone with a generous timeout before judging
                        # (a slow answer on a loaded machine is not a missing answer)
                        again = run_batch(srv, [name], kind, f"{cfgname}-{kind}-retry", patience=2.5)[0]
                        if again["reply"] is None:
                            # a traced (strace) server on a loaded machine can be seconds behind: once more, very patiently
                            time.sleep(1.0)
                            again = run_batch(srv, [name], kind, f"{cfgname}-{kind}-retry2", patience=10.0)[0]
                        r["reply"], r["error"], r["data"] = again["reply"], again["error"], again["data"]
                        replay["retried_alone"] = True
                        replay["reply"] = r["reply"]
                    if escapes and r["reply"] != "ERROR":
                        v.violation(f"C03/escaping-name-not-refused/{kind}", f"{cfgname}: {kind} {name!r} resolves to {ref} outside {base} but was answered {r['reply']} (data={r['data']!r:.60})", replay)
                    if kind == "RRQ" and r["data"] is not None and by_content.get(bytes(r["data"])) is None and not bytes(r["data"]).startswith(b"UPLOAD "):
                        # unknown content: before judging, ask again alone - a datagram that strayed in from an unrelated
                        # transfer on this host (another server retransmitting to a re-used port) does not repeat
                        again = run_batch(srv, [name], kind, f"{cfgname}-{kind}-recheck", patience=2.5)[0]
                        if again["data"] != r["data"]:
                            classes["foreign-datagram-ignored"] = classes.get("foreign-datagram-ignored", 0) + 1
                            r["data"], r["reply"], r["error"] = again["data"], again["reply"], again["error"]
                    if kind == "RRQ" and r["data"] is not None:
                        src_rel = by_content.get(bytes(r["data"]))
                        if src_rel is None:
                            known_upload = any(bytes(r["data"]).startswith(b"UPLOAD ") for _ in (0,))
                            if not known_upload:
                                v.violation("C03/read-unknown-content", f"{cfgname}: RRQ {name!r} returned {len(r['data'])} bytes that are no file of the send directory: {bytes(r['data'])[:60]!r}", replay)
                        elif not inside(os.path.join(sb["root"], src_rel), send_dir):
                            v.violation("C03/read-outside", f"{cfgname}: RRQ {name!r} returned the content of {src_rel}, which is outside the send directory", replay)
                    if kind == "WRQ" and r["accepted"]:
                        payloads.setdefault(ref, []).append(r["payload"])
                    if len(samples) < 6 and escapes and len(name) < 40 and r["error"]:
                        samples.append({"config": cfgname, "kind": kind, "name": name, "resolves_to": os.path.relpath(ref, sb["root"]), "reply": f"ERROR {r['error'][0]}"})
                for rel, a, b in diff:
                    p = os.path.normpath(os.path.join(sb["root"], rel.rstrip("/")))
                    replay = {"engine": "net", "config": cfgname, "kind": kind, "batch": batch, "diff": [rel, a, b], "server_args": srv.args}
                    if kind == "RRQ":
                        v.violation("C03/rrq-fs-effect", f"{cfgname}: a read request of batch {batch[:3]}.. changed {rel}: {a} -> {b}", replay)
                    elif not inside(p, recv_dir):
                        v.violation("C03/write-outside", f"{cfgname}: a write request of batch {batch[:3]}.. changed {rel} outside the receive directory: {a} -> {b}", replay)
                if diff:
                    restore(sb, files, initial)
                if not srv.alive():
                    v.note_inconclusive(f"{cfgname}: server exited with {srv.exit_status()}: {srv.log_tail(300)}")
                    break
        time.sleep(0.1)
    if unanswered_unjudged:
        v.note_inconclusive(f"{cfgname}: {unanswered_unjudged} escaping requests got no reply within the batch window and were not retried (retry budget of 12 used up)")
    if use_strace:
        bad, seen = parse_strace(strace_path, sb["root"], send_dir, recv_dir)
        strace_seen += seen
        for call, p, why in bad[:20]:
            v.violation("C03/syscall-outside", f"{cfgname}: {call}({p!r}) {why}", {"engine": "net-strace", "config": cfgname, "syscall": call, "path": p})
        if seen == 0:
            v.note_inconclusive(f"{cfgname}: strace monitor recorded no sandbox path")
    return evaluations, distinct, samples, classes, strace_seen


def run(tier):
    v = C.Verdict("C03", tier, "exploration")
    ctx = Ctx("C03", tier)
    tftpd = ctx.bins["release"]["tftpd"]
    thorough = tier == "thorough"
    names = gen_names(3 if thorough else 2)
    evaluations = 0
    distinct = set()
    samples = []
    classes = {}
    strace_seen = 0
    configs = [("shared", False, False), ("distinct", True, False), ("shared+overwrite", False, True), ("distinct+overwrite", True, True),
               ("shared/trailing-slash", False, False), ("distinct/trailing-slash", True, True),
               ("shared/relative-dir", False, False), ("distinct/relative-dir", True, False),
               ("shared/dot-dir", False, False), ("shared/nested-relative", False, True),
               ("shared+overwrite+keep", False, True), ("distinct+overwrite+keep", True, True)]
    import concurrent.futures
    import random
    with concurrent.futures.ThreadPoolExecutor(max_workers=12) as ex:
        futs = [ex.submit(run_config, v, ctx, tftpd, thorough, names, cfgname, dist, ow, random.Random(C.seed() * 7919 + i)) for i, (cfgname, dist, ow) in enumerate(configs)]
        for f in futs:
            e, d, sm, cl, ss = f.result()
            evaluations += e
            distinct |= d
            samples += sm[:2]
            strace_seen += ss
            for k, n in cl.items():
                classes[k] = classes.get(k, 0) + n
    cov = {"evaluations": evaluations, "distinct_nontrivial": len(distinct),
           "rule": "request names = prefix in {'',/,\\,//,\\\\,/\\,C:\\,C:/} + up to L segments from {..,.,'',a.txt,sub,srv,srv2,secret.txt,etc,passwd,...,..a} joined by / or \\, plus absolute paths of real canary files, hand-written escapes and seeded random names; x {RRQ,WRQ} x {shared, distinct -sd/-rd} x {overwrite on/off}. Oracle (one-sided): a name whose reference resolution (strip leading separators, \\->/, normalise) leaves the directory must get an ERROR; any DATA payload must be the content of a file inside the send directory (all files carry unique contents); whole-sandbox snapshot diff around every batch of 64 requests may only show changes inside the receive directory. distinct = distinct (configuration, kind, name).",
           "samples": samples, "exhaustive": True, "exhaustive_subspaces": f"all names with up to {3 if thorough else 2} segments of the alphabet above (x 8 prefixes x both joiners); random names are samples",
           "reply_classes": classes, "names_per_config": len(names), "strace_sandbox_paths_seen": strace_seen}
    return v.finish(cov, ["symlinks inside the served tree are out of scope", "stat-only probing of outside paths is not a read", "snapshot attribution is per batch of 64 concurrent requests"])
