from . import common as C


def run(pid, tier, replay):
    try:
        if replay:
            import json
            rec = json.load(open(replay))
            rec["_path"] = replay
            if pid == "C05" and rec.get("replay", {}).get("engine") == "net":
                from . import net_c05
                return net_c05.replay(rec)
            from . import simcheck
            return simcheck.replay(pid, replay)
        if pid in ("C01", "C02", "C04", "C07", "C08", "C15", "C16"):
            from . import simcheck
            return simcheck.check(pid, tier)
        if pid == "C13":
            from . import simcheck
            return simcheck.check(pid, tier)
        if pid in ("C10", "C11", "C17", "C18"):
            from . import purecheck
            return purecheck.check(pid, tier)
        if pid == "C06":
            from . import net_c06
            return net_c06.run(tier)
        if pid == "C03":
            from . import net_c03
            return net_c03.run(tier)
        if pid == "C05":
            from . import net_c05
            return net_c05.run(tier)
        if pid == "C09":
            from . import net_c09
            return net_c09.run(tier)
        if pid == "C12":
            from . import net_c12
            return net_c12.run(tier)
        if pid == "C14":
            from . import net_c14
            return net_c14.run(tier)
        print(f"unknown property {pid}")
        return 2
    except C.BuildError as e:
        print(f"INCONCLUSIVE property={pid}: {e}")
        return 2
