"""C05 — listener availability under hostile datagram sequences (real tftpd, release + checked builds)."""
import concurrent.futures
import os
import random
import select
import socket
import struct
import subprocess
import time

from . import common as C
from . import net as N
from .netcommon import Ctx, write

BOUNDARY = ["0", "1", "7", "8", "65464", "65465", "65535", "65536", "2147483648", "4294967296", "68719476736", "1099511627776",
            "9223372036854775808", "18446744073709551615", "18446744073709551616", "-1", "+5", "007", "1e3", "", "abc", "99999999999999999999999999"]
OPTNAMES = ["blksize", "BLKSIZE", "BlkSize", "timeout", "TIMEOUT", "tsize", "TSize", "windowsize", "WINDOWSIZE", "WindowSize"]


def gen_datagrams(rng, n):
    """returns list of (label, bytes)"""
    out = []
    valid = [
        N.enc_req(N.RRQ, "victim.bin"), N.enc_req(N.WRQ, "up.bin"), N.enc_req(N.RRQ, "victim.bin", options=[("blksize", 512), ("tsize", 0), ("timeout", 1), ("windowsize", 4)]),
        N.enc_req(N.WRQ, "up2.bin", options=[("blksize", 1024), ("tsize", 100)]), N.enc_data(1, b"x" * 100), N.enc_data(0, b""), N.enc_ack(0), N.enc_ack(1), N.enc_ack(65535),
        N.enc_error(0, b"bye"), N.enc_error(7, b""), N.enc_oack([("blksize", 512)]), N.enc_oack([]),
    ]
    # (ii) every 2-byte opcode prefix with short tails (sampled per run, the first 64 opcodes exhaustively)
    for op in list(range(0, 64)) + [rng.randrange(65536) for _ in range(64)]:
        for tail in (b"", b"\0", b"a\0octet\0", b"\0\0\0\0", bytes([rng.randrange(256) for _ in range(rng.randrange(1, 8))])):
            out.append(("opcode-prefix", struct.pack(">H", op) + tail))
    # every ERROR code around the defined range, block-number boundaries of DATA / ACK
    for code in list(range(0, 20)) + [255, 256, 32768, 65535]:
        out.append(("error-code", N.enc_error(code, b"x")))
        out.append(("error-code", struct.pack(">HH", 5, code)))
    for blk in (0, 1, 2, 255, 256, 32767, 32768, 65534, 65535):
        out.append(("block-number", N.enc_ack(blk)))
        out.append(("block-number", N.enc_data(blk, b"")))
        out.append(("block-number", N.enc_data(blk, b"y" * 512)))
    # long *valid UTF-8* strings (multi-byte characters at every alignment) in the string fields: file names end up in
    # log lines and ERROR messages, which are cut to size somewhere
    for ch in ("\u00e9", "\u6587", "\U0001F600"):
        for lead in range(0, 4):
            for total in (120, 250, 254, 255, 256, 300, 440, 470, 490, 500, 505, 507):
                name = ("a" * lead + ch * 200)[: max(1, (total - lead) // len(ch.encode()))]
                name = "a" * lead + ch * max(1, (total - lead) // len(ch.encode()))
                out.append(("long-utf8-name", N.enc_req(N.RRQ, name)))
                out.append(("long-utf8-name", N.enc_req(N.WRQ, name)))
                out.append(("long-utf8-name", N.enc_req(N.RRQ, "sub/" + name)))
            out.append(("long-utf8-field", N.enc_req(N.RRQ, "victim.bin", mode=("a" * lead + ch * 60).encode())))
            out.append(("long-utf8-field", N.enc_error(1, ("a" * lead + ch * 150).encode())))
            out.append(("long-utf8-field", N.enc_req(N.RRQ, "victim.bin", options=[("a" * lead + ch * 40, "1")])))
    # a file that cannot be opened at once (a FIFO nobody writes to; created in the served directory by one_run)
    for kind in (N.RRQ, N.WRQ):
        out.append(("special-file", N.enc_req(kind, "pipe.fifo")))
        out.append(("special-file", N.enc_req(kind, "pipe.fifo", options=[("tsize", 0), ("timeout", 1)])))
        out.append(("special-file", N.enc_req(kind, "sub/pipe.fifo", options=[("blksize", 1024)])))
    # names that resolve to a directory, to the served directory itself, or to nothing at all
    for nm in ("", "/", "\\", ".", "./", "//", "sub", "sub/", "sub/.", "..", "../", " ", "\t", "victim.bin/", "victim.bin/x"):
        for kind in (N.RRQ, N.WRQ):
            out.append(("odd-name", N.enc_req(kind, nm)))
            out.append(("odd-name", N.enc_req(kind, nm, options=[("blksize", 512), ("tsize", 0)])))
    # abandoned uploads: accepted, then the client never sends anything (the worker lingers for 6 x timeout), followed
    # by further requests for the same names
    for _ in range(12):
        for nm in ("same.bin", "same2.bin"):
            out.append(("abandoned-upload", N.enc_req(N.WRQ, nm, options=[("timeout", rng.choice([30, 60, 120]))])))
            out.append(("abandoned-upload", N.enc_req(N.WRQ, nm)))
            out.append(("abandoned-upload", N.enc_req(N.RRQ, nm)))
    # (iv) option boundary values, each option alone and combined
    uniq = 0
    for kind, name in ((N.RRQ, "victim.bin"), (N.WRQ, None)):
        for on in OPTNAMES:
            for val in BOUNDARY:
                uniq += 1
                out.append((f"option-boundary:{on.lower()}={val}", N.enc_req(kind, name or f"u{uniq}.bin", options=[(on, val)])))
        small = ["0", "+0", "1", "8", "512", "65464", "65535", "65536", "18446744073709551615"]
        base_names = ["blksize", "timeout", "tsize", "windowsize"]
        for o1 in base_names:
            for o2 in base_names:
                if o1 == o2:
                    continue
                for v1 in small:
                    for v2 in small:
                        uniq += 1
                        out.append(("option-pair", N.enc_req(kind, name or f"u{uniq}.bin", options=[(o1, v1), (o2, v2)])))
        for _ in range(150):
            k = rng.randrange(2, 5)
            opts = [(rng.choice(OPTNAMES), rng.choice(BOUNDARY)) for _ in range(k)]
            uniq += 1
            out.append(("option-combo", N.enc_req(kind, name or f"u{uniq}.bin", options=opts)))
    # (iii) structure-aware mutations
    for p in valid:
        for cut in range(len(p)):
            out.append(("truncated", p[:cut]))
        for i, b in enumerate(p):
            if b == 0 and i >= 2:
                out.append(("nul-removed", p[:i] + p[i + 1:]))
                out.append(("nul-doubled", p[:i] + b"\0" + p[i:]))
    while len(out) < n:
        r = rng.random()
        if r < 0.3:
            ln = rng.choice([0, 1, 2, 3, 4, 5, 10, 100, 511, 512, 513, 516, 1000, 1500]) if rng.random() < 0.5 else rng.randrange(0, 1500)
            out.append(("random-bytes", bytes(rng.getrandbits(8) for _ in range(ln))))
        elif r < 0.32:
            out.append(("oversized", bytes(rng.getrandbits(8) for _ in range(rng.choice([2000, 9000, 65507])))))
        elif r < 0.7:
            p = bytearray(rng.choice(valid))
            for _ in range(rng.randrange(1, 4)):
                if not p:
                    break
                k = rng.randrange(len(p))
                c = rng.randrange(4)
                if c == 0:
                    p[k] = rng.getrandbits(8)
                elif c == 1:
                    del p[k]
                elif c == 2:
                    p.insert(k, rng.choice([0, 0, 0xff, 0x30, 0x39, 0x80]))
                else:
                    a = rng.choice(valid)
                    p = p[:k] + bytearray(a[rng.randrange(len(a) + 1):])
            out.append(("mutated", bytes(p)))
        else:
            out.append(("valid", rng.choice(valid)))
    rng.shuffle(out)
    return out[:n]


class Pool:
    """source sockets; replies that start a transfer are answered with ERROR so that no worker lingers"""

    def __init__(self, family, k):
        self.socks = []
        for _ in range(k):
            s = socket.socket(family, socket.SOCK_DGRAM)
            s.bind(("127.0.0.1", 0))
            s.setblocking(False)
            self.socks.append(s)
        self.replies = {}
        self.n = 0
        self.left_hanging = 0
        self.sources = k

    def send(self, rng, data, addr):
        # mostly a small set of long-lived endpoints, sometimes a brand-new source endpoint
        # (single-port mode keeps per-source state in the listener)
        if rng.random() < 0.1:
            if len(self.socks) > 64:
                old = self.socks.pop(8)
                old.close()
            s = socket.socket(self.socks[0].family, socket.SOCK_DGRAM)
            s.bind(("127.0.0.1", 0))
            s.setblocking(False)
            self.socks.append(s)
            self.sources += 1
        else:
            s = rng.choice(self.socks)
        try:
            s.sendto(data, addr)
        except OSError:
            pass

    def drain(self, wait=0.0):
        end = time.time() + wait
        while True:
            rl = N.wait_readable(self.socks, max(0.0, end - time.time()))
            if not rl:
                return
            for s in rl:
                try:
                    buf, src = s.recvfrom(70000)
                except OSError:
                    continue
                k, f = N.dec(buf)
                self.replies[k] = self.replies.get(k, 0) + 1
                # let every second accepted transfer proceed one step before it is cancelled
                self.n += 1
                if self.n % 9 == 4:
                    self.left_hanging += 1
                    continue          # an abandoned transfer: its worker has to give up on its own
                try:
                    if k == "OACK" and self.n % 2 == 0:
                        s.sendto(N.enc_ack(0), src)
                    elif k == "ACK" and f.get("blk") == 0 and self.n % 2 == 0:
                        s.sendto(N.enc_data(1, b"tiny"), src)
                    elif k in ("DATA", "OACK", "ACK"):
                        s.sendto(N.enc_error(0, b"stop"), src)
                except OSError:
                    pass

    def close(self):
        for s in self.socks:
            s.close()


FLOODS = ("oack-then-data", "data1-then-oack", "wrq-then-ack", "oack-then-requests", "oack-then-mixed")


def flood(srv, scenario, count, rng):
    """one endpoint starts a transfer and then sends a long uninterrupted run of well-formed datagrams that are no answer"""
    s = N._sock(timeout=1.0)
    tr = N.Transfer()
    try:
        if scenario == "wrq-then-ack":
            s.sendto(N.enc_req(N.WRQ, f"flood{rng.randint(0, 1 << 30)}.bin"), srv.addr)
        elif scenario == "data1-then-oack":
            s.sendto(N.enc_req(N.RRQ, "victim.bin"), srv.addr)
        else:
            s.sendto(N.enc_req(N.RRQ, "victim.bin", options=[("blksize", 600)]), srv.addr)
        k, f, src = N.recv(s, tr)
        peer = src if k in ("OACK", "DATA", "ACK") else srv.addr
        kinds = {"oack-then-data": [N.enc_data(1, b"tiny")], "data1-then-oack": [N.enc_oack([("blksize", "600")])], "wrq-then-ack": [N.enc_ack(7)],
                 "oack-then-requests": [N.enc_req(N.RRQ, "victim.bin", options=[("blksize", 600)])],
                 "oack-then-mixed": [N.enc_data(2, b"abcd"), N.enc_oack([("tsize", "1")]), N.enc_data(0, b"")]}[scenario]
        for i in range(count):
            s.sendto(kinds[i % len(kinds)], peer)
            if peer != srv.addr and i % 3 == 0:
                s.sendto(kinds[i % len(kinds)], srv.addr)     # the listening port gets its share in multi-port mode too
            if i % 100 == 99:
                time.sleep(0.002)
        time.sleep(0.05)
        s.sendto(N.enc_error(0, b"stop"), peer)
    except OSError:
        pass
    finally:
        s.close()


def one_run(tftpd, flavor, single, rw, dgrams, sb, rng_seed):
    ro = rw == "read-only"
    ow = rw.startswith("overwrite")
    dotdir = rw.endswith("dot-dir")     # served directory given as `.`, the working directory is the sandbox
    """returns dict(result) ; feeds datagrams in batches of 64 with a probe after each"""
    rng = random.Random(rng_seed)
    content = N.keyed_content("probe", 700)
    write(os.path.join(sb["srv"], "probe.bin"), content)
    write(os.path.join(sb["srv"], "victim.bin"), N.keyed_content("victim", 700))
    write(os.path.join(sb["srv"], "sub", "inner.bin"), b"inner")
    for fifo in ("pipe.fifo", "sub/pipe.fifo"):
        try:
            os.mkfifo(os.path.join(sb["srv"], fifo))
        except OSError:
            pass
    cfg = f"{flavor}/{'single' if single else 'multi'}/{rw}"
    res = {"cfg": cfg, "sent": 0, "probes": 0, "failure": None, "labels": {}, "replies": {}}

    def fresh():
        srv = N.Server(tftpd, "." if dotdir else sb["srv"], single=single, read_only=ro, overwrite=ow, logdir=sb["logs"], tag=f"c05-{flavor}", cwd=sb["srv"] if dotdir else None)
        srv.start()
        return srv

    srv = fresh()
    pool = Pool(socket.AF_INET, 8)
    try:
        ok, why = N.probe(srv, "probe.bin", content)
        if not ok:
            res["failure"] = {"kind": "inconclusive", "why": f"initial probe failed: {why}"}
            return res
        B = 64
        for bi in range(0, len(dgrams), B):
            batch = dgrams[bi:bi + B]
            for label, d in batch:
                pool.send(rng, d, srv.addr)
                res["sent"] += 1
                res["labels"][label.split(":")[0]] = res["labels"].get(label.split(":")[0], 0) + 1
            pool.drain(0.01)
            ok, why = N.probe(srv, "probe.bin", content)
            res["probes"] += 1
            if ok:
                continue
            status = srv.exit_status()
            log = srv.log_tail(600)
            srv.stop()
            # bisect on fresh servers: smallest prefix of the batch after which the probe fails
            culprit = None
            srv2 = fresh()
            try:
                for i, (label, d) in enumerate(batch):
                    pool.send(rng, d, srv2.addr)
                    pool.drain(0.02)
                    ok2, why2 = N.probe(srv2, "probe.bin", content)
                    if not ok2:
                        culprit = (i, label, d)
                        break
            finally:
                st2 = srv2.exit_status()
                srv2.stop()
            single_repro = None
            if culprit:
                srv3 = fresh()
                try:
                    pool.send(rng, culprit[2], srv3.addr)
                    pool.drain(0.05)
                    ok3, _ = N.probe(srv3, "probe.bin", content)
                    single_repro = not ok3
                finally:
                    srv3.stop()
            history_repro = None
            if not culprit:
                # the failure may need state left by earlier datagrams (lingering transfers): replay the whole history
                srv4 = fresh()
                pool4 = Pool(socket.AF_INET, 8)
                try:
                    for hb in range(0, bi + B, B):
                        for label, d in dgrams[hb:hb + B]:
                            pool4.send(rng, d, srv4.addr)
                        pool4.drain(0.01)
                    ok4, why4 = N.probe(srv4, "probe.bin", content)
                    history_repro = not ok4
                finally:
                    pool4.close()
                    srv4.stop()
                if history_repro:
                    culprit = (-1, "history-of-%d-datagrams" % (bi + len(batch)), b"")
            res["failure"] = {"kind": "violation" if culprit else "unreproduced", "why": why, "exit_status": status, "log_tail": log, "batch_index": bi, "history_replay_reproduces": history_repro,
                              "culprit_label": culprit[1] if culprit else None, "culprit_hex": culprit[2][:120].hex() if culprit else None, "batch_labels": [l for l, _ in batch],
                              "culprit_alone_reproduces": single_repro, "batch_hex": [d[:80].hex() for _, d in batch] if not culprit else None}
            return res
        # long uninterrupted runs from the endpoint of a live transfer
        for scenario in FLOODS:
            if scenario == "wrq-then-ack" and ro:
                continue
            # every repeated request is accepted and costs the server a thread for 30 s: far fewer of those, so that a
            # dozen servers flooded at once stay well below what this machine can run (the thread-limit scenario has a
            # server of its own)
            count = 300 if scenario == "oack-then-requests" else 12000
            flood(srv, scenario, count, rng)
            res["sent"] += count
            res["labels"]["flood"] = res["labels"].get("flood", 0) + count
            ok, why = N.probe(srv, "probe.bin", content)
            res["probes"] += 1
            if ok:
                continue
            status = srv.exit_status()
            log = srv.log_tail(600)
            srv.stop()
            srv5 = fresh()
            try:
                flood(srv5, scenario, count, rng)
                ok5, why5 = N.probe(srv5, "probe.bin", content)
            finally:
                srv5.stop()
            res["failure"] = {"kind": "unreproduced" if ok5 else "violation", "why": why, "exit_status": status, "log_tail": log, "batch_index": -1, "history_replay_reproduces": None,
                              "culprit_label": f"flood:{scenario}x{count}", "culprit_hex": "", "batch_labels": [], "culprit_alone_reproduces": not ok5, "batch_hex": None, "flood": {"scenario": scenario, "count": count}}
            return res
        res["replies"] = dict(pool.replies)
        res["sources"] = pool.sources
        return res
    finally:
        pool.close()
        srv.stop()


def pid_namespaces_work():
    try:
        r = subprocess.run(["unshare", "-p", "-f", "--mount-proc", "sh", "-c", "echo 400 > /proc/sys/kernel/pid_max && cat /proc/sys/kernel/pid_max"],
                           stdout=subprocess.PIPE, stderr=subprocess.DEVNULL, timeout=10, text=True)
        return r.returncode == 0 and r.stdout.strip() == "400"
    except (OSError, subprocess.TimeoutExpired):
        return False


def thread_limit_run(tftpd, single, sb):
    """More simultaneous requests than the server may have threads (PID namespace with pid_max 400): the server must
    neither exit nor stay unable to serve once the transfers it did accept have given up."""
    content = N.keyed_content("probe", 700)
    write(os.path.join(sb["srv"], "probe.bin"), content)
    cfg = f"release/{'single' if single else 'multi'}/thread-limit"
    res = {"cfg": cfg, "requests": 0, "outcome": None}
    for attempt in range(2):
        srv = N.Server(tftpd, sb["srv"], single=single, logdir=sb["logs"], tag="c05-tl", pid_limit=400)
        try:
            srv.start()
        except RuntimeError:
            res["outcome"] = "not-started"
            return res
        socks = []
        try:
            ok, why = N.probe(srv, "probe.bin", content)
            if not ok:
                res["outcome"] = "not-started"
                return res
            socks = [N._sock(timeout=0.1) for _ in range(20)]     # few descriptors: other threads of this check use select()
            for i in range(1000):
                s = socks[i % len(socks)]
                s.sendto(N.enc_req(N.RRQ if i % 3 else N.WRQ, "probe.bin" if i % 3 else f"tl{i}.bin", options=[("timeout", 1)]), srv.addr)
                res["requests"] += 1
                if i % 50 == 49:
                    time.sleep(0.01)
            time.sleep(1.0)
            status_after_burst = srv.exit_status()
            time.sleep(8.0)          # accepted transfers (timeout 1 s) give up after 6 tries
            ok, why = N.probe(srv, "probe.bin", content, timeout=3.0)
            log = srv.log_tail(800)
            refused = srv.log_tail(400000).count("Resource temporarily unavailable")
            res["refused_for_lack_of_threads"] = refused
            if ok and srv.exit_status() is None:
                res["outcome"] = "survived"
                return res
            res["failure"] = {"exit_status": srv.exit_status(), "exit_status_after_burst": status_after_burst, "why": why, "log_tail": log}
        finally:
            for s in socks:
                s.close()
            srv.stop()
    res["outcome"] = "violation"     # failed on two fresh servers in a row
    return res


def busy_worker_run(tftpd, single, sb):
    """One endpoint keeps a worker busy for half a minute (duplicate-packets mode, a window of 30000 blocks) and sends it
    1000 stale ACKs meanwhile; the listener must go on answering other endpoints."""
    content = N.keyed_content("probe", 700)
    write(os.path.join(sb["srv"], "probe.bin"), content)
    write(os.path.join(sb["srv"], "long.bin"), N.keyed_content("long", 8 * 30000 + 3))
    cfg = f"release/{'single' if single else 'multi'}/busy-worker"
    res = {"cfg": cfg, "datagrams": 0, "outcome": None}
    for attempt in range(2):
        srv = N.Server(tftpd, sb["srv"], single=single, dup=1, logdir=sb["logs"], tag="c05-bw")
        try:
            srv.start()
        except RuntimeError:
            res["outcome"] = "not-started"
            return res
        s = N._sock(timeout=2.0)
        try:
            tr = N.Transfer()
            s.sendto(N.enc_req(N.RRQ, "long.bin", options=[("windowsize", 30000), ("blksize", 8), ("timeout", 1)]), srv.addr)
            k, f, peer = N.recv(s, tr)
            if k != "OACK":
                res["outcome"] = f"not-started ({k})"
                return res
            s.sendto(N.enc_ack(0), peer)
            N.recv(s, tr)
            for i in range(1000):
                s.sendto(N.enc_ack(0), peer)
                res["datagrams"] += 1
                if i % 4 == 3:
                    time.sleep(0.001)
            time.sleep(0.3)
            ok, why = N.probe(srv, "probe.bin", content, timeout=2.0)
            if ok and srv.exit_status() is None:
                res["outcome"] = "served"
                return res
            res["failure"] = {"exit_status": srv.exit_status(), "why": why, "log_tail": srv.log_tail(400)}
        finally:
            s.close()
            srv.stop()
    res["outcome"] = "violation"
    return res


def run(tier):
    v = C.Verdict("C05", tier, "exploration")
    flavors = ("release", "checked")
    ctx = Ctx("C05", tier, flavors=flavors)
    thorough = tier == "thorough"
    n = 120_000 if thorough else 14_000
    jobs = []
    k = 0
    with concurrent.futures.ThreadPoolExecutor(max_workers=12) as ex:
        for fl in flavors:
            for single in (False, True):
                for ro in ("read-only", "writable", "overwrite") + (("overwrite/dot-dir",) if fl == "release" else ()):
                    k += 1
                    rng = random.Random(C.seed() * 131 + k)
                    dgrams = gen_datagrams(rng, n)
                    sb = ctx.sandbox("c05")
                    jobs.append(ex.submit(one_run, ctx.bins[fl]["tftpd"], fl, single, ro, dgrams, sb, C.seed() + k))
        tl_jobs = []
        if pid_namespaces_work():
            for single in (False, True):
                tl_jobs.append(ex.submit(thread_limit_run, ctx.bins["release"]["tftpd"], single, ctx.sandbox("c05tl")))
        bw_jobs = [ex.submit(busy_worker_run, ctx.bins["release"]["tftpd"], single, ctx.sandbox("c05bw")) for single in (False, True)]
        results = [j.result() for j in jobs]
        tl_results = [j.result() for j in tl_jobs]
        bw_results = [j.result() for j in bw_jobs]
    for r in bw_results:
        if r["outcome"] == "violation":
            f = r["failure"]
            v.violation(f"C05/busy-worker/{'exit' if f['exit_status'] is not None else 'wedged'}/{r['cfg'].split('/')[1]}",
                        f"{r['cfg']}: while one worker was busy sending a window of 30000 blocks (duplicate-packets 1) and its endpoint sent 1000 stale ACKs, the server {'exited with status ' + str(f['exit_status']) if f['exit_status'] is not None else 'did not serve another endpoint'} ({f['why']}); twice on fresh servers",
                        {"engine": "net", "config": r["cfg"], "scenario": "busy-worker", **f})
    for r in tl_results:
        if r["outcome"] == "violation":
            f = r["failure"]
            v.violation(f"C05/thread-limit/{'exit' if f['exit_status'] is not None else 'wedged'}/{r['cfg'].split('/')[1]}",
                        f"{r['cfg']}: 1000 simultaneous requests against a server that may have about 400 threads: the server {'exited with status ' + str(f['exit_status']) if f['exit_status'] is not None else 'no longer served the probe after the accepted transfers had ended'} ({f['why']}); log: {f['log_tail'][-300:]!r}",
                        {"engine": "net", "config": r["cfg"], "scenario": "thread-limit", **f})
    total = sum(r["sent"] for r in results) + sum(r["requests"] for r in tl_results) + sum(r["datagrams"] for r in bw_results)
    probes = sum(r["probes"] for r in results)
    labels, replies = {}, {}
    for r in results:
        for a, b in r["labels"].items():
            labels[a] = labels.get(a, 0) + b
        for a, b in r["replies"].items():
            replies[str(a)] = replies.get(str(a), 0) + b
        f = r["failure"]
        if not f:
            continue
        if f["kind"] == "violation":
            mode = r["cfg"].split("/", 1)[1]
            sig = f"C05/{'exit' if f['exit_status'] is not None else 'wedged'}/{f['culprit_label']}/{r['cfg'].split('/')[1]}"
            v.violation(sig, f"{r['cfg']}: after datagram [{f['culprit_label']}] {f['culprit_hex'][:80]} the server {'exited with status ' + str(f['exit_status']) if f['exit_status'] is not None else 'stayed alive but no longer served the probe'} ({f['why']}); alone reproduces: {f['culprit_alone_reproduces']}; log: {f['log_tail'][-200:]!r}",
                        {"engine": "net", "config": r["cfg"], **f})
        elif f["kind"] == "unreproduced":
            v.note_inconclusive(f"{r['cfg']}: probe failed once ({f['why']}, exit {f['exit_status']}) but the batch did not reproduce it on a fresh server")
        else:
            v.note_inconclusive(f"{r['cfg']}: {f['why']}")
    cov = {"evaluations": total, "distinct_nontrivial": len({(r['cfg'], l) for r in results for l in r['labels']}) + probes,
           "rule": "hostile datagrams (random bytes 0..1500 and up to 65507, opcode prefixes, truncations / NUL removal / byte mutations / splices of valid packets of all six kinds, valid requests with option values at 0,1,7,8,65464,65465,2^16,2^31,2^32,2^36,2^40,2^63,2^64-1,2^64,-1,+5,007,1e3,'',abc in every case spelling, alone and combined) are sent from 8 source sockets to one long-lived server per (build, port mode, read-only) in a seeded order; after every 64 datagrams a liveness probe (canonical RRQ must return the exact 700-byte file, from the listening port in single-port mode) and the process exit status are checked; a failing batch is bisected on fresh servers. Transfers started by hostile requests are cancelled with ERROR. Finally the endpoint of a live transfer sends 12000 well-formed datagrams that are no answer (DATA after the OACK, OACK after DATA 1, ACK 7 after a WRQ, a mix; 300 repeated requests) without a pause, then a probe. Busy worker: a worker kept sending for half a minute (duplicate-packets 1, window of 30000 blocks) receives 1000 stale ACKs; another endpoint must be served meanwhile. Thread limit: a server in a PID namespace with pid_max 400 receives 1000 simultaneous requests; it must stay alive and serve the probe once the accepted transfers have given up. distinct_nontrivial = probes answered + distinct (configuration, datagram class) pairs.",
           "samples": [{"config": r["cfg"], "datagrams": r["sent"], "probes_passed": r["probes"], "classes": r["labels"]} for r in results[:3]],
           "exhaustive": False, "datagram_classes": labels, "replies_seen": replies, "probes": probes, "servers": len(results), "busy_worker_scenario": [{k: r.get(k) for k in ("cfg", "datagrams", "outcome")} for r in bw_results], "thread_limit_scenario": [{k: r.get(k) for k in ("cfg", "requests", "outcome", "refused_for_lack_of_threads")} for r in tl_results] or "skipped: PID namespaces with their own pid_max are not available here", "source_endpoints": sum(r.get("sources", 0) for r in results)}
    return v.finish(cov, ["the thread-limit scenario bounds threads only; exhaustion of memory or descriptors by thousands of simultaneous accepted transfers is not driven (workers are cancelled)", "server-internal thread schedules are sampled, not controlled"])


def replay(rec):
    """re-sends the bisected datagram to a fresh server of the same configuration and probes it"""
    r = rec["replay"]
    fl, mode, rw = r["config"].split("/", 2)
    dotdir = rw.endswith("dot-dir")
    ctx = Ctx("C05", "quick", flavors=(fl,))
    sb = ctx.sandbox("c05replay")
    content = N.keyed_content("probe", 700)
    write(os.path.join(sb["srv"], "probe.bin"), content)
    write(os.path.join(sb["srv"], "victim.bin"), N.keyed_content("victim", 700))
    srv = N.Server(ctx.bins[fl]["tftpd"], "." if dotdir else sb["srv"], single=(mode == "single"), read_only=(rw == "read-only"), overwrite=rw.startswith("overwrite"), logdir=sb["logs"], cwd=sb["srv"] if dotdir else None).start()
    try:
        if r.get("flood"):
            flood(srv, r["flood"]["scenario"], r["flood"]["count"], random.Random(1))
            ok, why = N.probe(srv, "probe.bin", content)
            print(f"replayed flood {r['flood']} on {r['config']}: probe ok={ok} {why}; exit status {srv.exit_status()}")
            if not ok:
                print(f"VIOLATION property=C05 replay={rec.get('_path')}")
                return 1
            return 0
        if not r.get("culprit_hex"):
            print("no single culprit recorded; batch:", r.get("batch_hex"))
            return 2
        s = N._sock(timeout=0.5)
        s.sendto(bytes.fromhex(r["culprit_hex"]), srv.addr)
        try:
            buf, src = s.recvfrom(70000)
            k, f = N.dec(buf)
            if k == "OACK":
                s.sendto(N.enc_ack(0), src)
        except OSError:
            pass
        time.sleep(0.5)
        ok, why = N.probe(srv, "probe.bin", content)
        print(f"replayed [{r.get('culprit_label')}] on {r['config']}: probe ok={ok} {why}; exit status {srv.exit_status()}")
        if not ok:
            print(f"VIOLATION property=C05 replay={rec.get('_path')}")
            return 1
        return 0
    finally:
        srv.stop()
