"""Helpers shared by the loopback (E2) property checks."""
import os
import random
import shutil
import socket
import time

from . import common as C
from . import net as N


import threading
_LOCK = threading.Lock()


class Ctx:
    def __init__(self, pid, tier, flavors=("release",)):
        self.pid, self.tier = pid, tier
        self.bins = {fl: C.build_bins(fl) for fl in flavors}
        self.wd = C.fresh_workdir(f"net-{pid}")
        self.rng = random.Random(C.seed() * 1000003 + sum(map(ord, pid)))
        self.n = 0

    def sandbox(self, name, distinct=False):
        """root/{outside, srv, srv2, rcv} with canaries; returns dict of paths"""
        with _LOCK:
            self.n += 1
            k = self.n
        root = os.path.join(self.wd, f"{name}-{k}")
        shutil.rmtree(root, ignore_errors=True)
        sb = {"root": root, "srv": os.path.join(root, "srv"), "rcv": os.path.join(root, "rcv") if distinct else os.path.join(root, "srv"),
              "outside": os.path.join(root, "outside"), "logs": root + "-logs"}
        for k in ("srv", "rcv", "outside", "logs"):
            os.makedirs(sb[k], exist_ok=True)
        os.makedirs(os.path.join(root, "srv2"), exist_ok=True)
        os.makedirs(os.path.join(root, "srv_"), exist_ok=True)
        return sb


def write(path, data):
    os.makedirs(os.path.dirname(path), exist_ok=True)
    with open(path, "wb") as f:
        f.write(data)


def quiet_after(sock, seconds):
    """returns datagrams (src, raw) that still arrive on sock within `seconds`"""
    got = []
    end = time.time() + seconds
    while True:
        left = end - time.time()
        if left <= 0:
            return got
        sock.settimeout(left)
        try:
            buf, src = sock.recvfrom(70000)
            got.append((src[:2], buf[:40]))
        except socket.timeout:
            return got
