"""Loopback (E2) complements of the simulator-backed properties: the same scenarios through the real listener."""
import concurrent.futures
import os
import socket
import subprocess
import time

from . import common as C
from . import net as N
from .netcommon import Ctx, write, quiet_after


def _first(sock, tr):
    return N.recv(sock, tr)


# ------------------------------------------------------------------ C02: storage that accepts only part of a block
def c02(v, tier):
    """Uploads to servers whose process may not grow any file beyond a limit (RLIMIT_FSIZE, SIGXFSZ ignored): the write
    that crosses the limit is short, the next one fails. Whenever an ACK(k) arrives, the file must already hold blocks 1..k."""
    ctx = Ctx("C02", tier)
    tftpd = ctx.bins["release"]["tftpd"]
    rng = ctx.rng
    cases = [(800, 900, 512, 1), (3300, 3500, 1024, 4), (1000, 1600, 512, 1), (1024, 1600, 512, 1), (None, 3000, 512, 2),
             (5000, 5000, 512, 3), (4999, 5000, 512, 3), (100, 4000, 8, 16)]
    for _ in range(16 if tier == "thorough" else 4):
        b = rng.choice([8, 100, 512, 1428])
        w = rng.choice([1, 2, 5])
        n = rng.randint(1, 12)
        size = n * b + rng.randint(0, b - 1)
        cases.append((rng.randint(1, size), size, b, w))
    # the announced transfer size disagrees with what is sent (no storage fault): tsize is advisory
    for size, b, w, ts in [(3000, 512, 1, 5000), (3000, 1024, 4, 30000), (3000, 512, 2, 100), (0, 512, 1, 700), (2048, 512, 2, 1), (5000, 1000, 3, 1 << 33)]:
        cases.append((None, size, b, w, ts))
    plans = [(single, c) for single in (False, True) for c in cases]
    checks = {"ack_time_file_checks": 0, "uploads_cut_by_limit": 0, "uploads_completed": 0, "uploads_with_wrong_tsize": 0}

    def one(p):
        single, (lim, size, b, w, *rest) = p
        tsize = rest[0] if rest else None
        sb = ctx.sandbox("c02")
        content = N.keyed_content(f"c02-{lim}-{size}-{b}-{w}", size)
        path = os.path.join(sb["srv"], "up.bin")
        bad = []
        nchecks = [0]

        def on_ack(blk, base, bb):
            d = (blk - base) & 0xFFFF
            if d >= w:
                return
            acked = min((base + d) * bb, size)
            try:
                with open(path, "rb") as fh:
                    got = fh.read(acked + 1)
            except OSError:
                got = None
            nchecks[0] += 1
            if got is None or got[:acked] != content[:acked]:
                bad.append((base + d, acked, None if got is None else len(got)))

        with N.Server(tftpd, sb["srv"], single=single, logdir=sb["logs"], fsize_limit=lim) as srv:
            opts = [("blksize", b), ("windowsize", w), ("timeout", 1)] + ([("tsize", tsize)] if tsize is not None else [])
            tr = N.upload(srv.addr, "up.bin", content, opts, family=srv.family, timeout=0.5, on_ack=on_ack)
            time.sleep(0.05)
            final = None
            if os.path.exists(path):
                with open(path, "rb") as fh:
                    final = fh.read(size + 1)
                if os.path.getsize(path) != len(final):
                    final += b"\0" * min(os.path.getsize(path) - len(final), 1 << 20)    # longer than the upload: differs anyway
        return p, tr, bad, nchecks[0], final, content

    with concurrent.futures.ThreadPoolExecutor(max_workers=8) as ex:
        for p, tr, bad, n, final, content in ex.map(one, plans):
            single, (lim, size, b, w, *rest) = p
            checks["ack_time_file_checks"] += n
            if rest:
                checks["uploads_with_wrong_tsize"] += 1
            replay = {"engine": "net", "single_port": single, "file_size_limit": lim, "upload_len": size, "blksize": b, "windowsize": w, "announced_tsize": rest[0] if rest else None, "acks": [a[0] for a in tr.acks][:20]}
            mode = "single" if single else "multi"
            if bad:
                k, acked, have = bad[0]
                v.violation("C02/net/ack-before-stored", f"{mode}-port, file size limit {lim}: ACK({k}) arrived while the file held {have} of the {acked} acknowledged bytes (upload {size} B, blksize {b}, windowsize {w})", replay)
            if tr.completed:
                checks["uploads_completed"] += 1
                if final != content:
                    v.violation("C02/net/final-ack-file-differs", f"{mode}-port, file size limit {lim}{', announced tsize ' + str(rest[0]) if rest else ''}: final block acknowledged but the stored file ({None if final is None else len(final)} B) is not the uploaded payload ({size} B)", replay)
            else:
                checks["uploads_cut_by_limit"] += 1
                if lim is None or lim >= size:
                    v.note_inconclusive(f"{mode}-port: upload below the file size limit did not complete ({tr.note} {tr.error})")
    # a second write request for a name whose upload was accepted a moment ago and has stored nothing yet, on a
    # keep-on-error server without --overwrite: whatever it is told, the file behind the first upload's final ACK is
    # the first upload
    for single in (False, True):
        sb = ctx.sandbox("c02")
        a_body, b_body = b"A" * 1124, b"B" * 562
        with N.Server(tftpd, sb["srv"], single=single, keep=True, logdir=sb["logs"]) as srv:
            sa, sb2 = N._sock(timeout=1.0), N._sock(timeout=1.0)
            tra = N.Transfer()
            sa.sendto(N.enc_req(N.WRQ, "twice.bin", options=[("timeout", 1), ("windowsize", 2)]), srv.addr)
            k, f, pa = N.recv(sa, tra)
            time.sleep(0.1)
            trb = N.Transfer()
            ok = None
            if k == "OACK":
                # B asks now (nothing stored yet), sends its data after A's first window, A finishes last
                sb2.sendto(N.enc_req(N.WRQ, "twice.bin", options=[("timeout", 1)]), srv.addr)
                kb, fb, pb = N.recv(sb2, trb)
                trb.first = (kb, fb, pb)
                for blk in (1, 2):
                    sa.sendto(N.enc_data(blk, a_body[(blk - 1) * 512:blk * 512]), pa)
                N.recv(sa, tra)                                   # ACK 2
                if kb in ("ACK", "OACK"):
                    for blk in (1, 2):
                        sb2.sendto(N.enc_data(blk, b_body[(blk - 1) * 512:blk * 512]), pb)
                        N.recv(sb2, trb)
                sa.sendto(N.enc_data(3, a_body[1024:]), pa)
                N.recv(sa, tra)                                   # ACK 3 (final)
                time.sleep(0.05)
                path = os.path.join(sb["srv"], "twice.bin")
                got = open(path, "rb").read() if os.path.exists(path) else None
                acked_final = any(a[1] and a[1].get("blk") == 3 for a in [(d, N.dec(d[2])[1]) for d in tra.datagrams if N.dec(d[2])[0] == "ACK"])
                ok = (got == a_body) or not acked_final
                checks["second_wrq_for_a_fresh_upload"] = checks.get("second_wrq_for_a_fresh_upload", 0) + 1
                if not ok:
                    v.violation("C02/net/second-wrq-mixes-uploads", f"{'single' if single else 'multi'}-port, --keep-on-error: a second WRQ for a name whose upload had just been accepted was {'accepted too' if trb and trb.first and trb.first[0] in ('ACK', 'OACK') else 'answered ' + str(trb and trb.first and trb.first[0])}; behind the first upload's final ACK the file holds {None if got is None else len(got)} bytes starting {None if not got else got[:4]!r} instead of its 1124 bytes",
                                {"engine": "net", "single_port": single, "scenario": "second WRQ before the first block", "second_first_reply": str(trb and trb.first)[:120]})
            sa.close()
            sb2.close()
    return checks, len(plans) + 2


# ------------------------------------------------------------------ C08: ACK(k) followed at once by a stale ACK
def ack_then_stale(addr, name, w, blksize, mode, family=socket.AF_INET, copies=1):
    """Download in which every in-window ACK is followed back to back by a stale one (the previous ACK again).
    mode 'early': ACK(first block of the window) the moment it arrives, while the rest of the window is still going out;
    mode 'end': ACK(last block of the window) when the window is complete.
    Returns (completed, rounds, bad) - bad = [(block, acked)] DATA at or below an acknowledged block that arrived after the
    pass in flight at the time of the ACK had ended."""
    s = N._sock(family, timeout=3.0)
    tr = N.Transfer()
    bad = []
    rounds = 0
    try:
        s.sendto(N.enc_req(N.RRQ, name, options=[("windowsize", w), ("blksize", blksize), ("timeout", 1)]), addr)
        k, f, peer = N.recv(s, tr)
        if k != "OACK":
            return None, 0, [], f"first reply {k}"
        s.sendto(N.enc_ack(0), peer)
        acked = 0          # absolute index of the last block acknowledged
        pass_end = 0       # last block of the pass that was in flight when `acked` was sent
        pass_done = True
        final_abs = None
        extra_copies = 0
        high = 0           # highest in-order block held
        while True:
            k, f, src = N.recv(s, tr)
            if k is None:
                return False, rounds, bad, "silence for 3 s"
            if k == "ERROR":
                return False, rounds, bad, f"ERROR {f}"
            if k != "DATA" or src != peer:
                continue
            abs_ = (high & ~0xFFFF) | f["blk"]
            if abs_ + 32768 < high:
                abs_ += 65536
            if len(f["data"]) < blksize:
                final_abs = abs_
            if abs_ == high + 1:
                high = abs_
            if abs_ == acked and mode == "end" and extra_copies > 0:
                extra_copies -= 1          # duplicate-packets mode: the remaining copies of the block just acknowledged
            elif abs_ <= acked and pass_done:
                bad.append((abs_, acked))
                if len(bad) >= 3:
                    s.sendto(N.enc_error(0, b"enough"), peer)
                    return False, rounds, bad, "stopped after three retransmissions of acknowledged blocks"
            if not pass_done and (abs_ >= pass_end or abs_ == final_abs):
                pass_done = True
            if final_abs is not None and high >= final_abs:
                s.sendto(N.enc_ack(final_abs & 0xFFFF), peer)
                return True, rounds, bad, ""
            trigger = (mode == "early" and pass_done and abs_ == acked + 1 and high >= abs_) or \
                      (mode == "end" and high >= acked + w and abs_ == acked + w)
            if trigger:
                new = acked + 1 if mode == "early" else acked + w
                s.sendto(N.enc_ack(new & 0xFFFF), peer)
                s.sendto(N.enc_ack(acked & 0xFFFF), peer)      # stale: outside the window that starts at acked+1
                pass_end = acked + w
                pass_done = mode == "end"
                extra_copies = copies - 1
                acked = new
                rounds += 1
    finally:
        s.close()


def early_retransmission(addr, name, w, family=socket.AF_INET):
    """The server needs a sizeable part of the timeout to send one window (duplicate-packets mode, 1 ms per extra copy).
    The client withholds the window's ACK and sends one stale ACK half a second after the window's last datagram; kernel
    receive timestamps give the distance between that last datagram and the next DATA. Returns (gap_s, send_time_s, note)."""
    import struct
    s = N._sock(family, timeout=4.0)
    try:
        s.setsockopt(socket.SOL_SOCKET, 35, 1)     # SO_TIMESTAMPNS
        s.sendto(N.enc_req(N.RRQ, name, options=[("windowsize", w), ("blksize", 8), ("timeout", 1)]), addr)

        def rx(timeout):
            s.settimeout(timeout)
            try:
                buf, anc, _, src = s.recvmsg(2048, 256)
            except socket.timeout:
                return None, None, None
            ts = None
            for lvl, typ, data in anc:
                if lvl == socket.SOL_SOCKET and typ == 35 and len(data) >= 16:
                    sec, nsec = struct.unpack("qq", data[:16])
                    ts = sec + nsec / 1e9
            return N.dec(buf), ts, src[:2]

        pkt, ts, peer = rx(3.0)
        if pkt is None or pkt[0] != "OACK":
            return None, None, f"first reply {pkt and pkt[0]}"
        s.sendto(N.enc_ack(0), peer)
        first_ts = last_ts = None
        seen = 0
        while True:
            pkt, ts, src = rx(0.25)          # the first pass ends when nothing arrives for a quarter of a second
            if pkt is None:
                break
            if pkt[0] == "DATA" and ts is not None:
                first_ts = first_ts or ts
                last_ts = ts
                seen += 1
        if last_ts is None or seen < w:
            return None, None, f"only {seen} datagrams of the first pass seen"
        time.sleep(0.25)                      # 0.5 s after the last datagram of the pass
        s.sendto(N.enc_ack(0), peer)          # stale: the window starts at block 1
        pkt, ts, src = rx(4.0)
        s.sendto(N.enc_error(0, b"done"), peer)
        if pkt is None or pkt[0] != "DATA" or ts is None:
            return None, last_ts - first_ts, f"no retransmission within 4 s ({pkt and pkt[0]})"
        return ts - last_ts, last_ts - first_ts, ""
    finally:
        s.close()


def stale_burst_then_ack(addr, name, w, family=socket.AF_INET):
    """While the server is still sending a slow window (duplicate-packets mode), the client sends 160 stale ACKs and then
    the in-window ACK(1). Returns (again, note): again = number of times block 1 was sent again after the first pass."""
    s = N._sock(family, timeout=3.0)
    tr = N.Transfer()
    try:
        s.sendto(N.enc_req(N.RRQ, name, options=[("windowsize", w), ("blksize", 8), ("timeout", 1)]), addr)
        k, f, peer = N.recv(s, tr)
        if k != "OACK":
            return None, f"first reply {k}"
        s.sendto(N.enc_ack(0), peer)
        k, f, _ = N.recv(s, tr)
        if k != "DATA" or f["blk"] != 1:
            return None, f"expected DATA 1, got {k}"
        for i in range(160):
            s.sendto(N.enc_ack(0), peer)
            if i % 4 == 3:
                time.sleep(0.001)
        s.sendto(N.enc_ack(1), peer)
        # first pass: until block w (or silence); then the server must go on with w+1 and never send block 1 again
        again, seen_end, beyond = 0, False, False
        end = time.time() + 8.0
        end_seen_at = None
        while time.time() < end:
            k, f, _ = N.recv(s, tr, timeout=0.5)
            if k is None:
                # after the pass: either the next window or (after the timeout, 1 s) the old one comes
                if seen_end and time.time() - end_seen_at > 3.0:
                    break
                continue
            if k != "DATA":
                continue
            if f["blk"] == w and not seen_end:
                seen_end = True
                end_seen_at = time.time()
            if f["blk"] == w + 1:
                beyond = True
                break
            if f["blk"] == 1 and seen_end:
                again += 1
                if again >= 2:
                    break
        s.sendto(N.enc_error(0, b"done"), peer)
        return again, "resumed behind the window" if beyond else ("first pass never finished" if not seen_end else "")
    finally:
        s.close()


def c08(v, tier):
    ctx = Ctx("C08", tier)
    tftpd = ctx.bins["release"]["tftpd"]
    evals = 0
    info = {"ack_stale_pairs_sent": 0, "downloads": 0}
    plans = []
    for single in (True, False):
        for dup in (None, 1):
            sb = ctx.sandbox("c08")
            write(os.path.join(sb["srv"], "early.bin"), N.keyed_content("c08-early", 64 * 13 + 5))     # 14 blocks of 64
            write(os.path.join(sb["srv"], "end.bin"), N.keyed_content("c08-end", 64 * 8 * 40 + 9))     # 40 windows of 8
            srv = N.Server(tftpd, sb["srv"], single=single, dup=dup, logdir=sb["logs"]).start()
            plans.append((srv, "early.bin", 8, 64, "early"))
            plans.append((srv, "end.bin", 8, 64, "end"))
            if dup is None:
                plans.append((srv, "end.bin", 64, 64, "early"))

    def attempt(p):
        srv, name, w, b, mode = p
        return ack_then_stale(srv.addr, name, w, b, mode, family=srv.family, copies=2 if "--duplicate-packets" in srv.args else 1)

    try:
        for p in plans:
            srv, name, w, b, mode = p
            evals += 1
            completed, rounds, bad, note = attempt(p)
            info["ack_stale_pairs_sent"] += rounds
            info["downloads"] += 1
            cfg = f"{'single' if srv.single else 'multi'}-port{'/duplicate-packets 1' if '--duplicate-packets' in srv.args else ''}"
            replay = {"engine": "net", "config": cfg, "file": name, "windowsize": w, "blksize": b, "ack_mode": mode, "retransmitted_acknowledged": bad[:8], "note": note}
            if bad:
                # acknowledged blocks came again: believed only if it repeats on two more serial attempts (a lost datagram
                # on a loaded loopback is not a verdict)
                again = [attempt(p) for _ in range(2)]
                info["ack_stale_pairs_sent"] += sum(a[1] for a in again)
                if all(a[2] for a in again):
                    v.violation("C08/net/acked-block-retransmitted", f"{cfg}: ACK(k) immediately followed by a stale ACK ({mode}, windowsize {w}): blocks at or below k were sent again after k was acknowledged, e.g. block {bad[0][0]} after ACK({bad[0][1]}) (3 of 3 attempts)", replay)
                else:
                    v.note_inconclusive(f"{cfg}: one attempt saw an acknowledged block again, re-runs did not")
            elif completed is None:
                v.note_inconclusive(f"{cfg}: ack-then-stale download did not start: {note}")
            elif not completed:
                v.violation("C08/net/stale-ack-stalls", f"{cfg}: download with a stale ACK behind every ACK ({mode}, windowsize {w}) did not complete: {note}", replay)
        # retransmission only when the negotiated timeout has elapsed since the last transmission, also when sending a window
        # takes most of that timeout
        for srv in sorted({p[0] for p in plans if "--duplicate-packets" in p[0].args}, key=lambda x: x.single):
            evals += 1
            write(os.path.join(srv.args[srv.args.index("-d") + 1], "slow.bin"), N.keyed_content("c08-slow", 8 * 700 + 3))
            cfg = f"{'single' if srv.single else 'multi'}-port/duplicate-packets 1"
            gaps = []
            for attempt in range(3):
                gap, sendtime, note = early_retransmission(srv.addr, "slow.bin", 600, family=srv.family)
                gaps.append((None if gap is None else round(gap, 3), None if sendtime is None else round(sendtime, 3), note))
                if gap is None or gap >= 0.9:
                    break
            # a burst of stale ACKs while the window is still going out, then the ACK of its first block
            write(os.path.join(srv.args[srv.args.index("-d") + 1], "burst.bin"), N.keyed_content("c08-burst", 8 * 900 + 3))
            tries = []
            kernel_drops = 0
            for attempt in range(3):
                d0 = N.udp_counters()
                again, note = stale_burst_then_ack(srv.addr, "burst.bin", 400, family=srv.family)
                d1 = N.udp_counters()
                kernel_drops += (d1[0] - d0[0]) + (d1[1] - d0[1])
                tries.append((again, note))
                if not again:
                    break
            evals += 1
            info.setdefault("stale_burst_then_ack", {})[cfg] = tries
            if len(tries) == 3 and all(t[0] for t in tries) and kernel_drops:
                v.note_inconclusive(f"{cfg}: stale-burst scenario: the kernel dropped {kernel_drops} datagram(s) on this host meanwhile")
            elif len(tries) == 3 and all(t[0] for t in tries):
                v.violation("C08/net/acked-block-retransmitted-after-stale-burst", f"{cfg}: windowsize 400: 160 stale ACKs followed by ACK(1) while the window was going out; block 1 was sent again afterwards (3 of 3 attempts)", {"engine": "net", "config": cfg, "attempts": tries})
            elif tries[-1][0] is None:
                v.note_inconclusive(f"{cfg}: stale-burst scenario did not start: {tries[-1][1]}")
            info.setdefault("retransmission_after_slow_window", {})[cfg] = gaps
            if len(gaps) == 3 and all(g[0] is not None and g[0] < 0.9 for g in gaps):
                v.violation("C08/net/retransmission-before-timeout", f"{cfg}: windowsize 600, timeout 1 s: after a stale ACK the window was sent again only {[g[0] for g in gaps]} s after its previous transmission had ended (sending it took {[g[1] for g in gaps]} s; 3 of 3 attempts)",
                            {"engine": "net", "config": cfg, "measured": gaps})
            elif gaps[-1][0] is None:
                v.note_inconclusive(f"{cfg}: slow-window retransmission could not be measured: {gaps[-1][2]}")
    finally:
        for srv in {p[0] for p in plans}:
            srv.stop()
    return info, evals


# ------------------------------------------------------------------ C13
def c13_dup_wrq(v, ctx, tftpd, overwrite, pairs, T=1):
    """retransmitted WRQ for one name: finish on the most recently accepted worker, let the earlier one time out"""
    out = {"pairs": 0, "double_accept": 0, "intact": 0}
    sb = ctx.sandbox("c13dup")
    mode = "overwrite" if overwrite else "no-overwrite"
    jobs = []
    with N.Server(tftpd, sb["srv"], overwrite=overwrite, logdir=sb["logs"]) as srv:
        for i in range(pairs):
            name = f"dup{i}.bin"
            if overwrite:
                write(os.path.join(sb["srv"], name), b"old content that will be replaced")
            content = N.keyed_content(f"c13-{mode}-{i}", 1500)
            req = N.enc_req(N.WRQ, name, options=[("timeout", T)])
            s = N._sock(timeout=1.0)
            s.sendto(req, srv.addr)
            s.sendto(req, srv.addr)   # the retransmission
            replies = []
            tr = N.Transfer()
            for _ in range(2):
                k, f, src = N.recv(s, tr, timeout=0.5)
                if k:
                    replies.append((k, f, src))
            oacks = [r for r in replies if r[0] == "OACK"]
            out["pairs"] += 1
            if len(oacks) < 2:
                # only one accepted (the other refused with ERROR 6): finish it so that no worker lingers
                if oacks:
                    peer = oacks[0][2]
                    s.sendto(N.enc_data(1, content[:512]), peer)
                    N.recv(s, tr, timeout=0.5)
                    s.sendto(N.enc_data(2, content[512:1024]), peer)
                    N.recv(s, tr, timeout=0.5)
                    s.sendto(N.enc_data(3, content[1024:]), peer)
                    N.recv(s, tr, timeout=0.5)
                s.close()
                continue
            out["double_accept"] += 1
            latest = oacks[-1][2]
            ok = True
            for blk in (1, 2, 3):
                s.sendto(N.enc_data(blk, content[(blk - 1) * 512:blk * 512]), latest)
                k, f, src = N.recv(s, tr, timeout=1.0)
                while k is not None and not (k == "ACK" and f["blk"] == blk and src == latest):
                    k, f, src = N.recv(s, tr, timeout=1.0)
                if k is None:
                    ok = False
                    break
            s.close()
            path = os.path.join(sb["srv"], name)
            after_complete = open(path, "rb").read() if os.path.exists(path) else None
            jobs.append((name, content, ok, after_complete, time.time()))
        # wait until every earlier worker has run into its 6 timeouts
        if jobs:
            time.sleep(max(0.0, jobs[-1][4] + 6 * T + 2.0 - time.time()))
        for name, content, ok, after_complete, t in jobs:
            path = os.path.join(sb["srv"], name)
            now = open(path, "rb").read() if os.path.exists(path) else None
            replay = {"engine": "net", "scenario": "duplicate WRQ", "mode": mode, "name": name, "completed_on_latest_worker": ok, "file_right_after_completion": None if after_complete is None else len(after_complete), "file_after_wait": None if now is None else len(now)}
            if not ok:
                v.note_inconclusive(f"dup-WRQ {mode} {name}: an ACK of the latest worker did not arrive (watchdog)")
                continue
            if after_complete != content:
                # the earlier worker's late File::create truncated the file the latest worker was writing
                v.violation(f"C13/net/dup-WRQ/{mode}/latest-completes/earlier-worker-creates-late/file-altered",
                            f"{mode}: every block of {name} was acknowledged by the most recently accepted worker, yet right after the final ACK the file ({None if after_complete is None else len(after_complete)} bytes) differs from the {len(content)} bytes sent (the earlier worker's late File::create truncated it while it was being written)", replay)
                continue
            if now == content:
                out["intact"] += 1
            else:
                state = "file-removed" if now is None else "file-altered"
                v.violation(f"C13/net/dup-WRQ/{mode}/latest-completes/earlier-worker-times-out/{state}",
                            f"{mode}: {name} was completely uploaded through the most recently accepted worker, then the earlier worker timed out and the file was {'removed' if now is None else 'changed'}", replay)
    return out


def c13_cleanup(v, ctx, tftpd, T=1):
    """failed uploads through the real server: ERROR / silence after j blocks x clean/keep x windowsize"""
    results = {"cases": 0}
    plans = []
    for keep in (False, True):
        sb = ctx.sandbox("c13clean")
        srv = N.Server(tftpd, sb["srv"], keep=keep, logdir=sb["logs"]).start()
        for w in (1, 3):
            for cause in ("error", "silence"):
                for j in (0, 1, 2, 4):
                    plans.append((srv, sb, keep, w, cause, j))
    # one client socket abandons an upload and starts another one (different name) at once: the first one still fails and is
    # cleaned up, the second one is stored
    for single in (False, True):
        sb = ctx.sandbox("c13clean")
        srv = N.Server(tftpd, sb["srv"], single=single, logdir=sb["logs"]).start()
        plans.append((srv, sb, False, 1, "same-socket-next-upload", 1))
    # a plain RFC 1350 upload (no option at all, so the default 5 s timeout applies) whose client falls silent, both modes
    for single in (False, True):
        sb = ctx.sandbox("c13clean")
        srv = N.Server(tftpd, sb["srv"], single=single, logdir=sb["logs"]).start()
        plans.append((srv, sb, False, 1, "silence-default-timeout", 1))

    def one(p):
        srv, sb, keep, w, cause, j = p
        name = f"fail_{w}_{cause}_{j}.bin"
        content = N.keyed_content(name, 512 * 6 + 100)
        s = N._sock(timeout=1.0)
        tr = N.Transfer()
        plain = cause == "silence-default-timeout"
        if plain:
            name = f"fail_plain_{int(srv.single)}.bin"
        s.sendto(N.enc_req(N.WRQ, name, options=[] if plain else [("timeout", T), ("windowsize", w)]), srv.addr)
        k, f, peer = N.recv(s, tr)
        if k != ("ACK" if plain else "OACK"):
            s.close()
            return p, name, content, None, f"first reply {k}"
        sent = 0
        while sent < j:
            burst = list(range(sent + 1, min(sent + w, j) + 1))
            for blk in burst:
                s.sendto(N.enc_data(blk, content[(blk - 1) * 512:blk * 512]), peer)
            sent = burst[-1]
            if sent % w == 0:
                N.recv(s, tr, timeout=1.0)
        if cause == "same-socket-next-upload":
            second = N.keyed_content(name + "-second", 700)
            tr2 = N.upload(srv.addr, "second_" + name, second, [("timeout", 1)], sock=s)
            time.sleep(6 * T + 1.5)
            p2 = os.path.join(sb["srv"], "second_" + name)
            got2 = open(p2, "rb").read() if os.path.exists(p2) else None
            if not tr2.completed or got2 != second:
                s.close()
                return p, name, content, None, f"the second upload from the same socket did not complete ({tr2.note} {tr2.error})"
        elif cause == "error":
            s.sendto(N.enc_error(0, b"client aborts"), peer)
            time.sleep(0.3)
        elif plain:
            time.sleep(6 * 5 + 1.5)
        else:
            time.sleep(6 * T + 1.5)
        s.close()
        path = os.path.join(sb["srv"], name)
        if not keep:
            # the worker removes the file when it gives up; on a loaded machine that can be later than planned
            end = time.time() + 10.0
            while os.path.exists(path) and time.time() < end:
                time.sleep(0.25)
        data = open(path, "rb").read() if os.path.exists(path) else None
        return p, name, content, data, ""

    with concurrent.futures.ThreadPoolExecutor(max_workers=16) as ex:
        for p, name, content, data, note in ex.map(one, plans):
            srv, sb, keep, w, cause, j = p
            results["cases"] += 1
            replay = {"engine": "net", "scenario": "failed upload", "keep_on_error": keep, "windowsize": w, "cause": cause, "blocks_sent": j, "file_len_after": None if data is None else len(data)}
            if note:
                v.note_inconclusive(f"failed-upload case {name}: {note}")
                continue
            if not keep and data is not None:
                v.violation(f"C13/net/cleanup/clean/{cause}", f"upload {name} failed ({cause} after {j} blocks, windowsize {w}) with clean-on-error in force but a {len(data)}-byte file remains", replay)
            if keep and data is None:
                v.violation(f"C13/net/cleanup/keep/{cause}", f"upload {name} failed ({cause} after {j} blocks) in --keep-on-error mode but the partial file is gone", replay)
            if keep and data is not None and content[:len(data)] != data:
                v.violation(f"C13/net/cleanup/keep-not-prefix/{cause}", f"kept partial file of {name} ({len(data)} bytes) is not a prefix of the bytes sent", replay)
    for p in {id(p[0]): p[0] for p in plans}.values():
        p.stop()
    return results


def c13(v, tier):
    ctx = Ctx("C13", tier)
    tftpd = ctx.bins["release"]["tftpd"]
    thorough = tier == "thorough"
    with concurrent.futures.ThreadPoolExecutor(max_workers=3) as ex:
        a = ex.submit(c13_dup_wrq, v, ctx, tftpd, True, 6 if thorough else 3)
        b = ex.submit(c13_dup_wrq, v, ctx, tftpd, False, 200 if thorough else 30)
        c = ex.submit(c13_cleanup, v, ctx, tftpd)
        ra, rb, rc = a.result(), b.result(), c.result()
    if ra["double_accept"] == 0:
        v.note_inconclusive("duplicate WRQ in --overwrite mode was never accepted twice")
    return {"net_dup_wrq_overwrite": ra, "net_dup_wrq_default_mode_race": rb, "net_failed_upload_cases": rc["cases"]}, ra["pairs"] + rb["pairs"] + rc["cases"]


# ------------------------------------------------------------------ C16
def count_copies_download(addr, name, N_dup, family=socket.AF_INET, opts=()):
    """returns (first_reply_copies, {blk: copies}, data, problems). Copies are attributed by content, so a copy
    that arrives late (loaded machine) is still counted for its block; only the totals are judged."""
    s = N._sock(family, timeout=1.5)
    tr = N.Transfer()
    problems = []
    want = N_dup + 1
    try:
        s.sendto(N.enc_req(N.RRQ, name, options=opts), addr)
        k, f, peer = N.recv(s, tr)
        first_copies = 1
        if k == "OACK":
            extra = quiet_after(s, 0.06)
            first_copies += len(extra)
            s.sendto(N.enc_ack(0), peer)
        elif k == "DATA":
            s_first = (k, f)
        data = bytearray()
        copies = {}
        payloads = {}
        expected = 1
        pending = [(k, f)] if k == "DATA" else []
        done = False
        last_progress = time.time()
        while not done and time.time() - last_progress < 3.0:
            if pending:
                k2, f2 = pending.pop(0)
            else:
                s.settimeout(0.05 if copies.get(expected - 1, want) >= want or expected == 1 else 0.4)
                try:
                    buf, src = s.recvfrom(70000)
                    k2, f2 = N.dec(buf)
                except socket.timeout:
                    k2 = None
            if k2 == "DATA":
                last_progress = time.time()
                blk = f2["blk"]
                if blk in payloads and payloads[blk] == f2["data"]:
                    copies[blk] += 1
                elif blk == expected:
                    payloads[blk] = f2["data"]
                    copies[blk] = 1
                    data += f2["data"]
                else:
                    problems.append(f"unexpected DATA {blk} while expecting {expected}")
                continue
            if k2 is not None:
                problems.append(f"unexpected {k2} during the transfer")
                continue
            # quiet: acknowledge the newest complete block once all its copies had time to arrive
            if expected in copies:
                s.sendto(N.enc_ack(expected), peer)
                last_progress = time.time()
                if len(payloads[expected]) < 512:
                    done = True
                expected += 1
        # late copies of the final block and anything after the end
        for src2, raw in quiet_after(s, 0.3):
            k2, f2 = N.dec(raw)
            if k2 == "DATA" and f2["blk"] in payloads:
                copies[f2["blk"]] += 1
            else:
                problems.append(f"datagram {k2} after the final ACK")
        return first_copies, copies, bytes(data), problems
    finally:
        s.close()


def ack_every_copy_download(addr, name, opts, want, budget_s=25):
    """RFC 7440 receiver that acknowledges every copy of the block closing each window (and of the final block).
    Returns ({abs block: copies}, data, note)."""
    s = N._sock(timeout=2.0)
    tr = N.Transfer()
    copies, payloads, data = {}, {}, bytearray()
    note = ""
    t_end = time.time() + budget_s
    try:
        s.sendto(N.enc_req(N.RRQ, name, options=opts), addr)
        k, f, peer = N.recv(s, tr)
        if k != "OACK":
            return copies, b"", f"first reply {k}"
        o = dict(f["options"])
        b, w = int(o.get("blksize", 512)), int(o.get("windowsize", 1))
        s.sendto(N.enc_ack(0), peer)
        expected = 1
        done = False
        quiet = 0
        while time.time() < t_end:
            s.settimeout(0.6)
            try:
                buf, src = s.recvfrom(70000)
            except socket.timeout:
                quiet += 1
                if done or quiet > 6:
                    break
                continue
            quiet = 0
            k2, f2 = N.dec(buf)
            if k2 != "DATA":
                note += f"unexpected {k2}; "
                continue
            blk = f2["blk"]
            if blk in payloads:
                copies[blk] += 1
                if max(copies.values()) > want + 20:
                    note += f"block {blk} seen {copies[blk]} times, giving up; "
                    break
            elif blk == expected:
                payloads[blk] = f2["data"]
                copies[blk] = 1
                data += f2["data"]
                expected += 1
                if len(f2["data"]) < b:
                    done = True
            else:
                note += f"out-of-order DATA {blk}; "
                continue
            last_in_window = (blk % w == 0) or len(payloads[blk]) < b
            if last_in_window and blk == expected - 1:
                s.sendto(N.enc_ack(blk), peer)   # one ACK per copy received
        return copies, bytes(data), note
    finally:
        s.close()


def count_copies_upload(addr, name, content, family=socket.AF_INET):
    s = N._sock(family, timeout=1.0)
    tr = N.Transfer()
    copies = {}
    try:
        s.sendto(N.enc_req(N.WRQ, name), addr)
        k, f, peer = N.recv(s, tr)
        if k != "ACK" or f["blk"] != 0:
            return None, {}, [f"first reply {k} {f}"]
        first = 1 + len(quiet_after(s, 0.05))
        n = len(content) // 512 + 1
        problems = []
        for blk in range(1, n + 1):
            s.sendto(N.enc_data(blk, content[(blk - 1) * 512:blk * 512]), peer)
            s.settimeout(1.0)
            while True:
                k, f, src = N.recv(s, tr)
                if k == "ACK" and f["blk"] == blk - 1:
                    # a copy of the previous ACK that was still on its way (copies are sent 1 ms apart; on a loaded
                    # machine the last one can arrive after the counting window): it counts for that block
                    if blk - 1 == 0:
                        first += 1
                    else:
                        copies[blk - 1] += 1
                    continue
                break
            if k != "ACK" or f["blk"] != blk:
                problems.append(f"expected ACK {blk}, got {k} {f}")
                break
            c = 1
            for src2, raw in quiet_after(s, 0.05):
                k2, f2 = N.dec(raw)
                if k2 == "ACK" and f2["blk"] == blk:
                    c += 1
                else:
                    problems.append(f"unexpected {k2} among the copies of ACK {blk}")
            copies[blk] = c
        return first, copies, problems
    finally:
        s.close()


def c16(v, tier):
    ctx = Ctx("C16", tier)
    bins = ctx.bins["release"]
    thorough = tier == "thorough"
    evals = 0
    info = {}
    # start-up validation
    for n, should_start in ((254, True), (255, False), (256, False), (-1, False)):
        evals += 1
        sb = ctx.sandbox("c16v")
        srv = N.Server(bins["tftpd"], sb["srv"], dup=n, logdir=sb["logs"])
        srv.start(wait=False)
        if should_start:
            srv.wait_ready(10.0)
        else:
            end = time.time() + 8.0
            while srv.alive() and time.time() < end:
                time.sleep(0.05)
        alive = srv.alive()
        status = srv.exit_status()
        srv.stop()
        if should_start and not alive:
            v.violation("C16/startup/valid-rejected", f"--duplicate-packets {n} did not start (status {status})", {"engine": "net", "n": n})
        if not should_start and (alive or status == 0):
            v.violation(f"C16/startup/accepted-{n}", f"--duplicate-packets {n} was accepted (alive={alive}, status={status})", {"engine": "net", "n": n})
    # N = 254 with a window: sending one window takes N x windowsize ms, which can exceed the negotiated timeout;
    # every block must still be emitted exactly 255 times to a client that acknowledges every copy
    sbL = ctx.sandbox("c16big")
    contentL = N.keyed_content("c16-254", 1024 * 12 + 9)       # 13 blocks of 1 KiB: two full windows of 5 and a short one
    write(os.path.join(sbL["srv"], "L.bin"), contentL)
    with N.Server(bins["tftpd"], sbL["srv"], dup=254, logdir=sbL["logs"]) as srvL:
        evals += 1
        # (blksize 1024: 255 copies of one block are more than a quarter of a megabyte - a default socket buffer is smaller)
        copies, data, note = ack_every_copy_download(srvL.addr, "L.bin", [("windowsize", 5), ("timeout", 1), ("blksize", 1024)], 255, budget_s=25)
        finished = bool(copies) and "giving up" not in note and len(data) == len(contentL)
        too_many = {k: c for k, c in copies.items() if c > 255}
        wrong = too_many or ({k: c for k, c in copies.items() if c != 255} if finished else {})
        replay = {"engine": "net", "config": "N=254,windowsize=5,timeout=1", "copies": copies, "note": note}
        if not finished and not too_many:
            v.note_inconclusive(f"N=254 download did not finish inside its wall-clock budget ({note or 'slow machine'}); copies so far {copies}")
        elif wrong:
            v.violation("C16/net/data-copies/N254", f"N=254 windowsize 5 timeout 1: copies per block {wrong} (expected 255 each) {note}", replay)
        elif data != contentL:
            v.violation("C16/net/content/N254", f"N=254 windowsize 5: download differs ({len(data)} of {len(contentL)} bytes) {note}", replay)
    # the largest block size: N+1 copies of one block exceed a default socket buffer from N = 3 on
    sbB = ctx.sandbox("c16blk")
    contentB = N.keyed_content("c16-blk", 65464 * 2 + 77)
    write(os.path.join(sbB["srv"], "B.bin"), contentB)
    for single in (False, True):
        with N.Server(bins["tftpd"], sbB["srv"], single=single, dup=3, logdir=sbB["logs"]) as srvB:
            evals += 1
            first, copies, data, problems = count_copies_download(srvB.addr, "B.bin", 3, opts=(("blksize", 65464),))
            cfgB = f"N=3,blksize=65464,{'single' if single else 'multi'}"
            replay = {"engine": "net", "config": cfgB, "first_reply_copies": first, "data_copies": copies, "problems": problems}
            if any(c != 4 for c in copies.values()) or not copies:
                v.violation("C16/net/data-copies", f"{cfgB}: DATA copies per block {copies}, expected 4 each", replay)
            if data != contentB:
                v.violation("C16/net/content", f"{cfgB}: download differs ({len(data)} vs {len(contentB)} bytes)", replay)
            info[cfgB] = "ok"
    # a read-only server in duplicate-packets mode: the refusal of a write request is sent once
    for single in (False, True):
        sbR = ctx.sandbox("c16ro")
        with N.Server(bins["tftpd"], sbR["srv"], single=single, dup=3, read_only=True, logdir=sbR["logs"]) as srvR:
            evals += 1
            s = N._sock(timeout=1.0)
            s.sendto(N.enc_req(N.WRQ, "refused.bin"), srvR.addr)
            k, f, src = N.recv(s, N.Transfer())
            more = quiet_after(s, 0.1)
            s.close()
            if k != "ERROR" or more:
                v.violation("C16/net/error-repeated", f"N=3,read-only,{'single' if single else 'multi'}: refusal of a WRQ answered {k} followed by {len(more)} more datagram(s)", {"engine": "net", "config": "N=3,read-only", "single_port": single})
    for Nd in ((1, 2, 3) if thorough else (1, 2)):
        for single in (False, True):
            sb = ctx.sandbox("c16")
            content = N.keyed_content(f"c16-{Nd}", 512 * 3 + 77)
            write(os.path.join(sb["srv"], "d.bin"), content)
            write(os.path.join(sb["srv"], "exists.bin"), b"x")
            cfg = f"N={Nd},{'single' if single else 'multi'}"
            with N.Server(bins["tftpd"], sb["srv"], single=single, dup=Nd, logdir=sb["logs"]) as srv:
                for opts in ((), (("blksize", 512), ("windowsize", 1))):
                    evals += 1
                    first, copies, data, problems = count_copies_download(srv.addr, "d.bin", Nd, opts=opts)
                    replay = {"engine": "net", "config": cfg, "options": opts, "first_reply_copies": first, "data_copies": copies, "problems": problems}
                    if opts and first != 1:
                        v.violation("C16/net/handshake-repeated", f"{cfg}: the OACK was sent {first} times", replay)
                    if any(c != Nd + 1 for c in copies.values()):
                        v.violation("C16/net/data-copies", f"{cfg}: DATA copies per block {copies}, expected {Nd + 1} each", replay)
                    if data != content:
                        v.violation("C16/net/content", f"{cfg}: download differs ({len(data)} vs {len(content)} bytes)", replay)
                    for p in problems:
                        v.violation("C16/net/stray", f"{cfg}: {p}", replay)
                evals += 1
                up = N.keyed_content(f"c16up-{Nd}", 512 * 2 + 5)
                first, copies, problems = count_copies_upload(srv.addr, "u.bin", up)
                replay = {"engine": "net", "config": cfg, "first_reply_copies": first, "ack_copies": copies, "problems": problems}
                if first is None or problems:
                    v.violation("C16/net/upload", f"{cfg}: upload problem {problems}", replay)
                else:
                    if first != 1:
                        v.violation("C16/net/handshake-repeated", f"{cfg}: ACK 0 was sent {first} times", replay)
                    if any(c != Nd + 1 for c in copies.values()):
                        v.violation("C16/net/ack-copies", f"{cfg}: ACK copies per block {copies}, expected {Nd + 1} each", replay)
                    time.sleep(0.05)
                    got = open(os.path.join(sb["srv"], "u.bin"), "rb").read() if os.path.exists(os.path.join(sb["srv"], "u.bin")) else None
                    if got != up:
                        v.violation("C16/net/content", f"{cfg}: uploaded file differs", replay)
                # refusal sent once
                evals += 1
                s = N._sock(timeout=1.0)
                s.sendto(N.enc_req(N.WRQ, "exists.bin"), srv.addr)
                tr = N.Transfer()
                k, f, src = N.recv(s, tr)
                more = quiet_after(s, 0.05)
                s.close()
                if k != "ERROR" or more:
                    v.violation("C16/net/error-repeated", f"{cfg}: refusal reply {k} followed by {len(more)} more datagram(s)", {"engine": "net", "config": cfg})
                # the answer to a stray non-request datagram is sent once too
                evals += 1
                s = N._sock(timeout=1.0)
                s.sendto(N.enc_ack(3), srv.addr)
                k, f, src = N.recv(s, N.Transfer())
                more = quiet_after(s, 0.05 + 0.002 * Nd)
                s.close()
                if k != "ERROR" or more:
                    v.violation("C16/net/error-repeated", f"{cfg}: stray ACK answered {k} followed by {len(more)} more datagram(s)", {"engine": "net", "config": cfg, "request": "stray ACK"})
                # the crate's own client facing the duplicates
                cli = os.path.join(sb["root"], "client")
                os.makedirs(os.path.join(cli, "dl"), exist_ok=True)
                for w in (1, 4):
                    evals += 1
                    p = subprocess.run([bins["tftpc"], "d.bin", "-d", "-rd", "dl", "-i", "127.0.0.1", "-p", str(srv.port), "-w", str(w), "-t", "1"], cwd=cli, capture_output=True, timeout=60)
                    got = open(os.path.join(cli, "dl", "d.bin"), "rb").read() if os.path.exists(os.path.join(cli, "dl", "d.bin")) else None
                    if got != content:
                        v.violation("C16/net/tftpc-download", f"{cfg}: tftpc -w {w} download differs: {None if got is None else len(got)} bytes; stderr {p.stderr[-200:]!r}", {"engine": "net", "config": cfg, "w": w})
                    try:
                        os.unlink(os.path.join(cli, "dl", "d.bin"))
                    except OSError:
                        pass
                    # the client leaves right after the first copy of the final ACK: repeat, the outcome is timing dependent
                    for rep in range(5):
                        evals += 1
                        upc = N.keyed_content(f"c16cli-{Nd}-{w}-{rep}", 3000 + rep)
                        write(os.path.join(cli, f"cu{w}_{rep}.bin"), upc)
                        p = subprocess.run([bins["tftpc"], f"cu{w}_{rep}.bin", "-u", "-i", "127.0.0.1", "-p", str(srv.port), "-w", str(w), "-t", "1"], cwd=cli, capture_output=True, timeout=60)
                        time.sleep(0.05)
                        tgt = os.path.join(sb["srv"], f"cu{w}_{rep}.bin")
                        got = open(tgt, "rb").read() if os.path.exists(tgt) else None
                        if got != upc:
                            v.violation("C16/net/tftpc-upload", f"{cfg}: tftpc -w {w} upload differs: {None if got is None else len(got)} bytes; stderr {p.stderr[-200:]!r}; server log {srv.log_tail(200)!r}", {"engine": "net", "config": cfg, "w": w})
            info[cfg] = "ok"
    return {"net_duplicate_mode_servers": info}, evals


# ------------------------------------------------------------------ C07 / C01 / C04 / C15 spot checks
def silent_peer(tftpd, sb, single, ip):
    """The peer falls silent after DATA 1 (download) / after the OACK (upload), timeout 1 s: the server retransmits, gives
    up after a bounded number of tries and does not answer a datagram that arrives 10 s later."""
    out = {"cfg": f"{'single' if single else 'multi'}{'-v6' if ':' in ip else ''}", "problems": []}
    write(os.path.join(sb["srv"], "s.bin"), N.keyed_content("c07s", 512 * 3))
    try:
        srv = N.Server(tftpd, sb["srv"], single=single, ip=ip, logdir=sb["logs"]).start()
    except Exception as e:
        out["skipped"] = str(e)
        return out
    try:
        fam = srv.family
        sd, su = N._sock(fam, timeout=1.0), N._sock(fam, timeout=1.0)
        trd, tru = N.Transfer(), N.Transfer()
        sd.sendto(N.enc_req(N.RRQ, "s.bin", options=[("timeout", 1)]), srv.addr)
        k, f, pd = N.recv(sd, trd)
        if k != "OACK":
            out["skipped"] = f"first reply {k}"
            return out
        sd.sendto(N.enc_ack(0), pd)
        k, f, _ = N.recv(sd, trd)          # DATA 1
        su.sendto(N.enc_req(N.WRQ, "silent_up.bin", options=[("timeout", 1)]), srv.addr)
        k2, f2, pu = N.recv(su, tru)       # OACK, then silence
        t0 = time.time()
        retrans = 0
        sd.settimeout(0.5)
        while time.time() - t0 < 4.5:
            kk, ff, _ = N.recv(sd, trd)
            if kk == "DATA":
                retrans += 1
        out["retransmissions_in_4.5s"] = retrans
        if retrans == 0:
            out["problems"].append(("C07/net/silent-peer/no-retransmission", "DATA 1 was not retransmitted once within 4.5 s although timeout 1 s was negotiated"))
        time.sleep(max(0.0, 10.0 - (time.time() - t0)))
        while N.recv(sd, trd, timeout=0.05)[0] is not None:
            pass
        sd.sendto(N.enc_ack(1), pd)
        kk, ff, _ = N.recv(sd, trd, timeout=1.5)
        if kk == "DATA":
            out["problems"].append(("C07/net/silent-peer/download-never-given-up", "10 s after the client fell silent (timeout 1 s, 6 tries) a late ACK 1 was still answered with DATA: the transfer had not ended"))
        if k2 in ("OACK", "ACK"):
            while N.recv(su, tru, timeout=0.05)[0] is not None:
                pass
            su.sendto(N.enc_data(1, b"late"), pu)
            kk, ff, _ = N.recv(su, tru, timeout=1.5)
            if kk == "ACK" and ff["blk"] == 1:
                out["problems"].append(("C07/net/silent-peer/upload-never-given-up", "10 s after the client fell silent (timeout 1 s, 6 tries) a late DATA 1 was still acknowledged: the transfer had not ended"))
        sd.close()
        su.close()
    finally:
        srv.stop()
    return out


def c07(v, tier):
    ctx = Ctx("C07", tier)
    tftpd = ctx.bins["release"]["tftpd"]
    evals = 0
    silent_pool = concurrent.futures.ThreadPoolExecutor(max_workers=4)
    silent_jobs = [silent_pool.submit(silent_peer, tftpd, ctx.sandbox("c07s"), single, ip) for single in (False, True) for ip in ("127.0.0.1", "::1")]
    for single in (False, True):
        sb = ctx.sandbox("c07")
        content = N.keyed_content("c07", 512 * 5 + 10)   # 6 blocks
        write(os.path.join(sb["srv"], "f.bin"), content)
        write(os.path.join(sb["srv"], "exact.bin"), N.keyed_content("c07e", 512 * 4))  # 5 blocks, last empty
        cfg = "single" if single else "multi"
        with N.Server(tftpd, sb["srv"], single=single, logdir=sb["logs"]) as srv:
            # ERROR in reply to the OACK: nothing may follow
            evals += 1
            s = N._sock(timeout=1.0)
            tr = N.Transfer()
            s.sendto(N.enc_req(N.RRQ, "f.bin", options=[("timeout", 1), ("windowsize", 2)]), srv.addr)
            k, f, peer = N.recv(s, tr)
            if k == "OACK":
                s.sendto(N.enc_error(8, b"options refused"), peer)
                more = quiet_after(s, 1.6)
                if more:
                    v.violation("C07/net/data-after-error", f"{cfg}: {len(more)} datagram(s) after the client answered the OACK with ERROR: {N.dec(more[0][1])[0]}", {"engine": "net", "config": cfg})
            else:
                v.note_inconclusive(f"{cfg}: no OACK ({k})")
            s.close()
            # ERROR in the middle of a transfer: a download must fall silent at once, an upload must end (partial file
            # removed promptly, long before the 6 x timeout give-up)
            evals += 1
            s = N._sock(timeout=1.0)
            tr = N.Transfer()
            s.sendto(N.enc_req(N.RRQ, "f.bin", options=[("timeout", 1)]), srv.addr)
            k, f, peer = N.recv(s, tr)
            if k == "OACK":
                s.sendto(N.enc_ack(0), peer)
                k, f, src = N.recv(s, tr)
            if k == "DATA":
                s.sendto(N.enc_ack(f["blk"]), peer)
                N.recv(s, tr)                       # DATA 2
                s.sendto(N.enc_error(0, b"client aborts mid-transfer"), peer)
                more = quiet_after(s, 2.6)
                if more:
                    v.violation("C07/net/data-after-error-mid-transfer", f"{cfg}: {len(more)} datagram(s) ({N.dec(more[0][1])[0]}) after the client's ERROR in the middle of a download", {"engine": "net", "config": cfg})
            else:
                v.note_inconclusive(f"{cfg}: mid-transfer ERROR scenario got {k}")
            s.close()
            evals += 1
            s = N._sock(timeout=1.0)
            tr = N.Transfer()
            up = N.keyed_content("c07up", 512 * 4)
            s.sendto(N.enc_req(N.WRQ, "abort_me.bin", options=[("timeout", 1)]), srv.addr)
            k, f, peer = N.recv(s, tr)
            if k == "OACK":
                s.sendto(N.enc_data(1, up[:512]), peer)
                N.recv(s, tr)
                s.sendto(N.enc_error(3, b"disk full on my side"), peer)
                gone_after = None
                t0 = time.time()
                while time.time() - t0 < 3.0:
                    if not os.path.exists(os.path.join(sb["srv"], "abort_me.bin")):
                        gone_after = time.time() - t0
                        break
                    time.sleep(0.05)
                more = quiet_after(s, 0.3)
                if gone_after is None:
                    v.violation("C07/net/upload-not-ended-on-error", f"{cfg}: 3 s after the client's ERROR the upload worker had still not ended (partial file still there; give-up by timeout would take 6 s)", {"engine": "net", "config": cfg})
                if more:
                    v.violation("C07/net/ack-after-error-mid-upload", f"{cfg}: {len(more)} datagram(s) after the client's ERROR in the middle of an upload", {"engine": "net", "config": cfg})
            s.close()
            # the same with a small negotiated block size and ERROR messages longer than a block (the worker reads with a
            # buffer sized for the negotiated block size)
            for b, msg in ((8, b"Disk full or allocation exceeded on the client side"), (16, b"x" * 200), (8, "\u00e9".encode() * 60)):
                evals += 1
                s = N._sock(timeout=1.0)
                tr = N.Transfer()
                name = f"abort_small_{b}_{len(msg)}.bin"
                s.sendto(N.enc_req(N.WRQ, name, options=[("timeout", 1), ("blksize", b)]), srv.addr)
                k, f, peer = N.recv(s, tr)
                if k == "OACK":
                    s.sendto(N.enc_data(1, b"A" * b), peer)
                    N.recv(s, tr)
                    s.sendto(N.enc_error(3, msg), peer)
                    gone_after = None
                    t0 = time.time()
                    while time.time() - t0 < 3.0:
                        if not os.path.exists(os.path.join(sb["srv"], name)):
                            gone_after = time.time() - t0
                            break
                        time.sleep(0.05)
                    s.sendto(N.enc_data(2, b"B"), peer)        # a late final block: the transfer is over, nobody acknowledges it
                    more = quiet_after(s, 0.4)
                    rp = {"engine": "net", "config": cfg, "blksize": b, "error_message_bytes": len(msg)}
                    if gone_after is None:
                        v.violation("C07/net/upload-not-ended-on-long-error", f"{cfg}: blksize {b}: 3 s after the client's ERROR (message of {len(msg)} bytes) the upload worker had still not ended (partial file still there)", rp)
                    if [m for m in more if N.dec(m[1])[0] == "ACK"]:
                        v.violation("C07/net/ack-after-long-error", f"{cfg}: blksize {b}: DATA sent after the client's ERROR (message of {len(msg)} bytes) was still acknowledged", rp)
                else:
                    v.note_inconclusive(f"{cfg}: small-blksize ERROR scenario got {k}")
                s.close()
                # download side: a long ERROR instead of the ACK of DATA 1
                evals += 1
                s = N._sock(timeout=1.0)
                tr = N.Transfer()
                s.sendto(N.enc_req(N.RRQ, "f.bin", options=[("timeout", 1), ("blksize", b)]), srv.addr)
                k, f, peer = N.recv(s, tr)
                if k == "OACK":
                    s.sendto(N.enc_ack(0), peer)
                    N.recv(s, tr)
                    s.sendto(N.enc_error(0, msg), peer)
                    more = [m for m in quiet_after(s, 1.6) if N.dec(m[1])[0] == "DATA"]
                    if more:
                        v.violation("C07/net/data-after-long-error", f"{cfg}: blksize {b}: {len(more)} DATA datagram(s) after the client's ERROR with a {len(msg)}-byte message", {"engine": "net", "config": cfg, "blksize": b, "error_message_bytes": len(msg)})
                s.close()
            # partial / per-block ACKs around the end of file: no block beyond the final one, silence after the end
            for fname, nblocks in (("f.bin", 6), ("exact.bin", 5)):
                for w, every in ((4, 1), (4, 3), (3, 2), (8, 5)):
                    evals += 1
                    tr = N.download(srv.addr, fname, [("windowsize", w), ("timeout", 1)], ack_every=every, family=srv.family)
                    s2 = None
                    want = open(os.path.join(sb["srv"], fname), "rb").read()
                    blks = [a for (a, _, _, _, _) in tr.blocks]
                    replay = {"engine": "net", "config": cfg, "file": fname, "windowsize": w, "ack_every": every, "blocks": blks, "note": tr.note}
                    if not tr.completed or bytes(tr.data) != want:
                        v.violation("C07/net/partial-ack-transfer", f"{cfg}: {fname} w={w} ack-every={every}: completed={tr.completed} note={tr.note}", replay)
                    seen_beyond = [d for d in tr.datagrams if N.dec(d[2])[0] == "DATA" and N.dec(d[2])[1]["blk"] > nblocks]
                    if seen_beyond:
                        v.violation("C07/net/beyond-final", f"{cfg}: {fname} w={w} ack-every={every}: DATA beyond block {nblocks} seen on the wire", replay)
            # the server log must not report a failed transfer for a completed download
            time.sleep(1.3)
            log = srv.log_tail(5000)
            if "timed out" in log:
                v.violation("C07/net/late-timeout", f"{cfg}: server log reports a timeout although every download completed: {log[-200:]!r}", {"engine": "net", "config": cfg})
    silent = []
    for j in silent_jobs:
        r = j.result()
        evals += 1
        silent.append({k: r.get(k) for k in ("cfg", "retransmissions_in_4.5s", "skipped")})
        for sig, what in r["problems"]:
            v.violation(sig, f"{r['cfg']}: {what}", {"engine": "net", "config": r["cfg"], "scenario": "silent peer", "observed": r})
    silent_pool.shutdown()
    return {"net_termination_cases": evals, "silent_peer": silent}, evals


def oack_lost_fallback(v, srv, name, content, blksize, pid):
    """RFC 2347: a client that never sees the OACK behaves as if no option had been requested (512-byte blocks,
    516-byte buffer, lock-step). Whatever the server does then, the client must not *complete* with other bytes."""
    s = N._sock(srv.family, timeout=1.0)
    tr = N.Transfer()
    try:
        s.sendto(N.enc_req(N.RRQ, name, options=[("blksize", blksize), ("timeout", 1)]), srv.addr)
        k, f, peer = N.recv(s, tr)            # this is the OACK; the client "loses" it
        if k != "OACK":
            return "no-oack"
        got = bytearray()
        expected = 1
        t_end = time.time() + 3.0   # the server's wait for ACK 0 is the negotiated 1 s
        while time.time() < t_end:
            s.settimeout(max(0.1, t_end - time.time()))
            try:
                buf, src = s.recvfrom(516)    # a default client's buffer: longer datagrams are cut
            except socket.timeout:
                break
            k2, f2 = N.dec(buf)
            if k2 == "OACK":
                continue                      # a repeated OACK is lost as well
            if k2 == "ERROR":
                return "server-gave-up"
            if k2 == "DATA" and f2["blk"] == expected:
                got += f2["data"]
                s.sendto(N.enc_ack(expected), src)
                expected += 1
                if len(f2["data"]) < 512:
                    if bytes(got) != content:
                        v.violation(f"{pid}/net/oack-lost-fallback", f"{'single' if srv.single else 'multi'}-port: the OACK (blksize {blksize}) was lost; a client falling back to RFC 1350 defaults completed with {len(got)} bytes that differ from the {len(content)}-byte file",
                                    {"engine": "net", "scenario": "OACK lost, client uses defaults", "blksize": blksize, "single_port": srv.single, "got_len": len(got), "file_len": len(content)})
                        return "corrupt-copy"
                    return "complete-identical"
        return "no-completed-copy"
    finally:
        s.close()


def c01_c04(v, tier, pid):
    ctx = Ctx(pid, tier)
    tftpd = ctx.bins["release"]["tftpd"]
    evals = 0
    plans = []
    servers = []
    for single in (False, True):
        sb = ctx.sandbox(pid.lower())
        content = N.keyed_content(pid, 512 * 7 + 300)
        write(os.path.join(sb["srv"], "f.bin"), content)
        srv = N.Server(tftpd, sb["srv"], single=single, overwrite=True, logdir=sb["logs"]).start()
        servers.append(srv)
        for w in (1, 3):
            for drop in ((), (1,), (2,), (4,), (8,), (3, 4)):
                plans.append((srv, sb, "down", w, drop, content))
            for drop in ((), (1,), (3,), (8,)):
                plans.append((srv, sb, "up", w, drop, content))
            plans.append((srv, sb, "down-dupack", w, (2, 5), content))

    def one(p):
        srv, sb, kind, w, drop, content = p
        opts = [("windowsize", w), ("timeout", 1)]
        if kind == "down":
            tr = N.download(srv.addr, "f.bin", opts, drop_blocks=set(drop), family=srv.family, timeout=2.5)
            return p, tr.completed and bytes(tr.data) == content, tr.note
        if kind == "down-dupack":
            tr = N.download(srv.addr, "f.bin", opts, dup_acks=set(drop), family=srv.family, timeout=2.5)
            return p, tr.completed and bytes(tr.data) == content, tr.note
        name = f"u_{w}_{'_'.join(map(str, drop))}.bin"
        tr = N.upload(srv.addr, name, content, opts, drop_first_send=set(drop), family=srv.family, timeout=2.5)
        time.sleep(0.05)
        path = os.path.join(sb["srv"], name)
        got = open(path, "rb").read() if os.path.exists(path) else None
        return p, tr.completed and got == content, tr.note

    with concurrent.futures.ThreadPoolExecutor(max_workers=12) as ex:
        for p, ok, note in ex.map(one, plans):
            srv, sb, kind, w, drop, content = p
            evals += 1
            if not ok:
                v.violation(f"{pid}/net/{kind}", f"{'single' if srv.single else 'multi'}-port: {kind} windowsize {w} with emulated loss/duplication at blocks {drop} did not yield a byte-identical file ({note})",
                            {"engine": "net", "kind": kind, "windowsize": w, "faults_at_blocks": drop, "single_port": srv.single})
    if pid == "C04" and tier == "thorough":
        # a long negotiated timeout: one lost ACK must still be repaired by a retransmission after T, in both port modes
        def long_timeout(srv):
            tr = N.download(srv.addr, "f.bin", [("timeout", 30), ("windowsize", 2)], drop_blocks={3}, family=srv.family, timeout=40.0)
            return srv, tr
        with concurrent.futures.ThreadPoolExecutor(max_workers=2) as ex:
            for srv, tr in ex.map(long_timeout, servers):
                evals += 1
                want = open(os.path.join(srv.args[srv.args.index("-d") + 1], "f.bin"), "rb").read()
                if not (tr.completed and bytes(tr.data) == want):
                    v.violation("C04/net/long-timeout", f"{'single' if srv.single else 'multi'}-port: download with timeout 30 s and one lost DATA did not complete ({tr.note}, error {tr.error})",
                                {"engine": "net", "timeout": 30, "single_port": srv.single, "note": tr.note})
    if pid == "C04":
        # the final ACK of a download is lost (the one exception RFC 1350 allows: that server-side transfer fails); the same
        # client socket then runs its next transfer, which lasts beyond the moment the first worker gives up - it must
        # complete, in both port modes
        def after_lost_final_ack(srv):
            s = N._sock(srv.family, timeout=2.0)
            tr = N.Transfer()
            try:
                s.sendto(N.enc_req(N.RRQ, "f.bin", options=[("timeout", 1)]), srv.addr)
                k, f, peer = N.recv(s, tr)
                if k != "OACK":
                    return srv, None, f"first reply {k}"
                s.sendto(N.enc_ack(0), peer)
                while True:
                    k, f, _ = N.recv(s, tr)
                    if k != "DATA":
                        return srv, None, f"download broke off with {k}"
                    if len(f["data"]) < 512:
                        break                      # final block: its ACK is "lost"
                    s.sendto(N.enc_ack(f["blk"]), peer)
                body = N.keyed_content("c04-next", 512 * 19 + 7)
                s.sendto(N.enc_req(N.WRQ, f"next_{int(srv.single)}.bin", options=[("timeout", 1)]), srv.addr)
                peer2 = None
                while peer2 is None:
                    k, f, src = N.recv(s, tr)
                    if k == "OACK":
                        peer2 = src
                    elif k is None or k == "ERROR":
                        return srv, False, f"second request answered {k} {f}"
                for blk in range(1, len(body) // 512 + 2):
                    s.sendto(N.enc_data(blk, body[(blk - 1) * 512:blk * 512]), peer2)
                    while True:
                        k, f, src = N.recv(s, tr)
                        if k == "ACK" and src == peer2 and f["blk"] == blk:
                            break
                        if k == "ERROR" and src == peer2:
                            return srv, False, f"ERROR {f} from the transfer's own address at block {blk} of the second transfer"
                        if k is None:
                            return srv, False, f"no ACK for block {blk} of the second transfer"
                    time.sleep(0.45)
                time.sleep(0.1)
                pth = os.path.join(srv.args[srv.args.index("-d") + 1], f"next_{int(srv.single)}.bin")
                got = open(pth, "rb").read() if os.path.exists(pth) else None
                return srv, got == body, "stored file differs" if got != body else ""
            finally:
                s.close()
        with concurrent.futures.ThreadPoolExecutor(max_workers=2) as ex:
            for srv, ok, note in ex.map(after_lost_final_ack, servers):
                evals += 1
                if ok is None:
                    v.note_inconclusive(f"transfer after a lost final ACK could not be set up: {note}")
                elif not ok:
                    v.violation("C04/net/next-transfer-after-lost-final-ack", f"{'single' if srv.single else 'multi'}-port: after a download whose final ACK was lost, the next transfer from the same client socket (a block every 0.45 s, timeout 1 s) failed: {note}",
                                {"engine": "net", "single_port": srv.single, "note": note})
    fallback = {}
    if pid == "C01":
        jobs = []
        for srv in servers:
            for blksize in (128, 1024, 8):
                small = N.keyed_content(f"fb{blksize}", 2000 if blksize != 1024 else 2148)
                write(os.path.join(srv.args[srv.args.index("-d") + 1], f"fb{blksize}.bin"), small)
                jobs.append((srv, f"fb{blksize}.bin", small, blksize))
        with concurrent.futures.ThreadPoolExecutor(max_workers=6) as ex:
            for r in ex.map(lambda j: oack_lost_fallback(v, j[0], j[1], j[2], j[3], pid), jobs):
                evals += 1
                fallback[r] = fallback.get(r, 0) + 1
    repeated = 0
    if pid == "C01":
        # a request that repeats an option with different values: whatever the OACK says, each DATA block must be a slice of
        # one of the acknowledged lengths and a client that takes the OACK at its word never completes a wrong copy
        reps = [[("blksize", 1024), ("blksize", 512)], [("blksize", 512), ("blksize", 1024)], [("blksize", 700), ("tsize", 0), ("BLKSIZE", 1400)],
                [("windowsize", 2), ("blksize", 256), ("windowsize", 4), ("blksize", 128)], [("blksize", 64), ("blksize", 64)]]
        for srv in servers:
            want = open(os.path.join(srv.args[srv.args.index("-d") + 1], "f.bin"), "rb").read()
            for opts in reps:
                tr = N.download(srv.addr, "f.bin", opts, family=srv.family, timeout=0.7)
                evals += 1
                repeated += 1
                listed = [int(val) for k, val in (getattr(tr, "oack_list", None) or []) if k == "blksize"] or [512]
                replay = {"engine": "net", "kind": "repeated-options", "options": opts, "oack": getattr(tr, "oack_list", None), "block_lengths": [b[2] for b in tr.blocks][:12], "single_port": srv.single}
                mode = "single" if srv.single else "multi"
                if tr.completed and bytes(tr.data) != want:
                    v.violation("C01/net/repeated-option/wrong-copy", f"{mode}-port: RRQ {opts} answered OACK {getattr(tr, 'oack_list', None)}; the client completed with {len(tr.data)} of {len(want)} bytes", replay)
                elif any(ln not in listed for (_, _, ln, _, _) in tr.blocks[:-1]) or (tr.blocks and all(tr.blocks[-1][2] > x for x in listed)):
                    v.violation("C01/net/repeated-option/block-length", f"{mode}-port: RRQ {opts} answered OACK {getattr(tr, 'oack_list', None)} but DATA blocks carry {[b[2] for b in tr.blocks][:6]} bytes", replay)
    for s in servers:
        s.stop()
    return {"net_spot_checks": evals, "oack_lost_fallback_outcomes": fallback, "repeated_option_downloads": repeated}, evals


def c15(v, tier):
    ctx = Ctx("C15", tier)
    tftpd = ctx.bins["release"]["tftpd"]
    n = 65538
    content = N.keyed_content("c15", (n - 1) * 8 + 3)
    exact = N.keyed_content("c15x", 65535 * 8)          # 65536 blocks: the final (empty) block carries number 0

    def one_server(single):
        sb = ctx.sandbox("c15")
        write(os.path.join(sb["srv"], "big.bin"), content)
        write(os.path.join(sb["srv"], "exact.bin"), exact)
        mode = "single" if single else "multi"
        found, evals = [], 0
        with N.Server(tftpd, sb["srv"], single=single, logdir=sb["logs"]) as srv:
            downs = [("big.bin", content, 7, {65535, 65536}), ("big.bin", content, 64, {65534, 65537}), ("big.bin", content, 1, set())]
            if single:
                # the listener routes by endpoint for the whole transfer: windows whose ACK numbers repeat the final block's
                # wire number (2 resp. 0) long before the end
                downs = [("big.bin", content, 2, set()), ("exact.bin", exact, 16, set()), ("big.bin", content, 1, {65536}), ("exact.bin", exact, 5, {65535})]
            for name, want, w, drops in downs:
                evals += 1
                tr = N.download(srv.addr, name, [("blksize", 8), ("windowsize", w), ("timeout", 1)], drop_blocks=drops, timeout=2.5)
                if not (tr.completed and bytes(tr.data) == want):
                    found.append(("C15/net/download", f"{mode}-port: download of {len(want) // 8 + 1} blocks (blksize 8, windowsize {w}, emulated loss at {sorted(drops)}) completed={tr.completed} len={len(tr.data)} note={tr.note} error={tr.error}", {"engine": "net", "single_port": single, "file": name, "windowsize": w, "drops": sorted(drops)}))
            for w, drops in ((7, {65536}), (1, set())) if not single else ((4, {65537}),):
                evals += 1
                tr = N.upload(srv.addr, f"bigup{w}.bin", content, [("blksize", 8), ("windowsize", w), ("timeout", 1)], drop_first_send=drops, timeout=2.5)
                time.sleep(0.1)
                p = os.path.join(sb["srv"], f"bigup{w}.bin")
                got = open(p, "rb").read() if os.path.exists(p) else None
                if not (tr.completed and got == content):
                    found.append(("C15/net/upload", f"{mode}-port: upload of {n} blocks (windowsize {w}, withheld {sorted(drops)}) completed={tr.completed} note={tr.note}", {"engine": "net", "single_port": single, "windowsize": w, "drops": sorted(drops)}))
        return found, evals

    total = 0
    with concurrent.futures.ThreadPoolExecutor(max_workers=2) as ex:
        for found, evals in ex.map(one_server, (False, True)):
            total += evals
            for sig, what, rp in found:
                v.violation(sig, what, rp)
    return {"net_wrap_transfers": total}, total


EXT = {"C02": c02, "C08": c08, "C13": c13, "C16": c16, "C07": c07, "C01": lambda v, t: c01_c04(v, t, "C01"), "C04": lambda v, t: c01_c04(v, t, "C04"), "C15": c15}
